(* C01: in full-redaction mode, what can survive the walkers. Every leaf of the output is the
   "strong" verdict for its kind (a non-'$' string is replaced by redactString(s, class
   placeholder) or a pseudonym; a number / boolean by its constant when the flag is on) unless
   it lies at or below a key that the operator tables classify as not redactable (or is a
   $binary subType). Proved for all trees and for ANY tables; which keys the current tables
   classify that way is the finite obligation TablesOK_exempt. *)
From Coq Require Import Lia.
From Model Require Import Json Tables Walker.
From Proofs Require Import JsonFacts TableFacts WalkerRel.
Close Scope string_scope. Open Scope list_scope.

Section Surv.
Variable tb : tables.
Variable cs : consts.
Variable c : cfg.
Variable is_email : string -> bool.
Variable A : actions.

Hypothesis Hre : re c = None.

Definition exempt_key (init : list string) (k : string) (search : bool) : bool :=
  match get_op tb init k search with Some m => is_ty m Exempt | None => false end.

(* the empty key (parent key of arrays / scalars met by the pipeline walker) is not an exempt table entry *)
Hypothesis Hempty : ~ In (""%string, Exempt) (all_entries tb).

Definition ty_full (t : otype) : Prop := t = FieldName \/ t = Exempt \/ t = Namespace.
Definition ty_nonarr (t : otype) : Prop := t = Pipeline \/ t = OperatorArray.
Definition sanct_full (k : string) : Prop := exists t, ty_full t /\ In (k, t) (all_entries tb).
Definition not_array (v : json) : Prop := match v with JArr _ => False | _ => True end.
(* keys holding lists of sub-documents: what the walkers leave alone under them *)
Definition sanct_nonarr (k : string) (v : json) : Prop :=
  (In (k, Pipeline) (all_entries tb) /\ is_leaf v) \/
  (In (k, OperatorArray) (all_entries tb) /\ not_array v) \/
  (exists t, ty_nonarr t /\ In (k, t) (sub_entries tb) /\ not_array v).

Definition placeholders : list string := [c_isodate cs; c_oid cs; c_uuid cs; c_email cs; repl c].

Definition strong (v : json) (d : verdict) : Prop :=
  match v with
  | JStr s => (exists ph, d = VStr ph /\ In ph placeholders) \/ (d = VKeep /\ starts_with_dollar s = true)
  | JNum _ => if nums c then d = VNum else d = VKeep
  | JBool _ => if bools c then d = VBool else d = VKeep
  | JNull => d = VKeep
  | _ => False
  end.

Inductive ok1 : json -> json -> Prop :=
| O_leaf v d : strong v d -> ok1 v (apply_verdict A d v)
| O_arr l f : (forall x, In x l -> ok1 x (f x)) -> ok1 (JArr l) (JArr (map f l))
| O_obj l f : (forall kv, In kv l ->
                 sanct_full (fst kv) \/ fst kv = "subType"%string \/ sanct_nonarr (fst kv) (snd kv) \/ ok1 (snd kv) (f kv)) ->
              ok1 (JObj l) (JObj (map (fun kv => (fst kv, f kv)) l)).

Definition member_ok (k : string) (v out : json) : Prop :=
  sanct_full k \/ k = "subType"%string \/ sanct_nonarr k v \/ ok1 v out.

Notation W := (walk tb cs c is_email A).

Lemma exempt_key_sanct init k search : exempt_key init k search = true -> sanct_full k.
Proof.
  unfold exempt_key. destruct (get_op tb init k search) as [m|] eqn:E; [|discriminate].
  intros H. destruct m as [t| |]; simpl in H; try discriminate. destruct t; try discriminate.
  apply get_op_good in E. simpl in E. destruct E as [E|E]; [discriminate|].
  exists Exempt. split; [right; left; reflexivity | exact E].
Qed.

Lemma exempt_empty init search : exempt_key init ""%string search = false.
Proof.
  destruct (exempt_key init ""%string search) eqn:E; [|reflexivity]. exfalso.
  unfold exempt_key in E. destruct (get_op tb init ""%string search) as [m|] eqn:Eg; [|discriminate].
  destruct m as [t| |]; simpl in E; try discriminate. destruct t; try discriminate.
  apply get_op_good in Eg. simpl in Eg. destruct Eg as [Eg|Eg]; [discriminate | contradiction].
Qed.

Lemma scalar_strong init lst v search sel :
  is_leaf v ->
  strong v (scalar_verdict tb cs c is_email init lst v search sel) \/
  exempt_key init lst search = true \/
  (lst = "subType"%string /\ last_or_empty init = "$binary"%string).
Proof.
  intros Hl. unfold scalar_verdict. fold (exempt_key init lst search).
  destruct (exempt_key init lst search); [right; left; reflexivity|].
  rewrite Hre. rewrite Bool.andb_false_r. cbn [andb].
  assert (Hbt : strong v match v with
       | JNull => VKeep
       | JStr s => if is_email s then VStr (c_email cs) else VStr (repl c)
       | JNum _ => if nums c then VNum else VKeep
       | JBool _ => if bools c then VBool else VKeep
       | _ => VGeneric end).
  { destruct v as [| b | n | s | l | l]; try contradiction; simpl; auto.
    - destruct (bools c); reflexivity.
    - destruct (nums c); reflexivity.
    - left. destruct (is_email s); eexists; (split; [reflexivity|]); unfold placeholders; simpl; auto 10. }
  destruct (String.eqb lst "$date") eqn:E1.
  { left. destruct v; try exact Hbt. simpl. left. eexists; split; [reflexivity|]. unfold placeholders; simpl; auto. }
  destruct (String.eqb lst "$oid") eqn:E2.
  { left. destruct v; try exact Hbt. simpl. left. eexists; split; [reflexivity|]. unfold placeholders; simpl; auto. }
  destruct (String.eqb lst "base64" && String.eqb (last_or_empty init) "$binary") eqn:E3.
  { left. destruct v; try exact Hbt. simpl. left. eexists; split; [reflexivity|]. unfold placeholders; simpl; auto. }
  destruct (String.eqb lst "subType" && String.eqb (last_or_empty init) "$binary") eqn:E4.
  { right; right. apply andb_prop in E4. destruct E4 as [Ea Eb]. apply String.eqb_eq in Ea, Eb. auto. }
  left. exact Hbt.
Qed.

Lemma scalar_member init lst v search sel :
  is_leaf v -> member_ok lst v (scalar tb cs c is_email A init lst v search sel).
Proof.
  intros Hl. destruct (scalar_strong init lst v search sel Hl) as [H | [H | [H _]]].
  - right; right; right. unfold scalar. now apply O_leaf.
  - left. eapply exempt_key_sanct; eauto.
  - right; left. exact H.
Qed.

Lemma ok1_keep_null : ok1 JNull JNull.
Proof. apply (O_leaf JNull VKeep). reflexivity. Qed.

Lemma ok1_keep_dollar s : starts_with_dollar s = true -> ok1 (JStr s) (JStr s).
Proof. intros H. apply (O_leaf (JStr s) VKeep). simpl. auto. Qed.

Definition mode_ok (m : mode) : Prop :=
  match m with MQ _ _ (MMap pm) _ => rootish tb pm | _ => True end.

Definition guard (m : mode) : Prop :=
  match m with
  | MA pk _ search _ _ => exempt_key [] pk search = false
  | _ => True
  end.

Lemma build_map_fst {B} (l : list (string * json)) (g : string -> json -> string * B) :
  NoDup (map fst l) -> (forall k v, fst (g k v) = k) ->
  build (map (fun kv => g (fst kv) (snd kv)) l) = map (fun kv => (fst kv, snd (g (fst kv) (snd kv)))) l.
Proof.
  intros Hnd Hf.
  assert (E : map (fun kv => g (fst kv) (snd kv)) l = map (fun kv => (fst kv, snd (g (fst kv) (snd kv)))) l).
  { apply map_ext. intros [k v]. simpl. rewrite <- (Hf k v) at 2. now destruct (g k v). }
  rewrite E. apply build_nodup. rewrite map_map. simpl. exact Hnd.
Qed.

(* the walkers are only ever applied to containers, except redactPipelineStage (mode MP), which
   also meets scalars in stage position *)
Definition applicable (m : mode) (t : json) : Prop :=
  match t, m with
  | JArr _, MQ _ _ _ _ => False
  | JObj _, MA _ _ _ _ _ => False
  | JArr _, _ | JObj _, _ => True
  | _, MP _ _ _ => True
  | _, _ => False
  end.

Section Step.
Variable n : nat.
Hypothesis IH : forall t m, size t < n -> mode_rfn m = false -> mode_ok m -> guard m -> nodup_keys t -> applicable m t -> ok1 t (W m t).

Lemma arr_items_ok pk search sel kp l :
  exempt_key [] pk search = false ->
  (forall x, In x l -> size x < n) -> (forall x, In x l -> nodup_keys x) ->
  ok1 (JArr l) (JArr (map (arr_item tb cs c is_email A W pk false search sel kp) l)).
Proof.
  intros Hex Hs Hn. apply O_arr. intros x Hx. specialize (Hs x Hx). specialize (Hn x Hx).
  destruct x as [| b | num | s | l' | l']; unfold arr_item.
  - apply ok1_keep_null.
  - destruct (scalar_strong [] pk (JBool b) search (sel || re_matches_any c kp) I) as [H | [H | [_ H]]].
    + unfold scalar. now apply O_leaf.
    + congruence.
    + discriminate H.
  - destruct (scalar_strong [] pk (JNum num) search (sel || re_matches_any c kp) I) as [H | [H | [_ H]]].
    + unfold scalar. now apply O_leaf.
    + congruence.
    + discriminate H.
  - destruct (starts_with_dollar s) eqn:Ed.
    + unfold dollar_string. cbn [andb]. now apply ok1_keep_dollar.
    + destruct (scalar_strong [] pk (JStr s) search (sel || re_matches_any c kp) I) as [H | [H | [_ H]]].
      * unfold scalar. now apply O_leaf.
      * congruence.
      * discriminate H.
  - apply IH; simpl; auto.
  - apply IH; simpl; auto.
Qed.

Lemma arr_ok pk search sel kp l :
  exempt_key [] pk search = false -> size (JArr l) <= n -> nodup_keys (JArr l) ->
  ok1 (JArr l) (JArr (map (arr_item tb cs c is_email A W pk false search sel kp) l)).
Proof.
  intros Hex Hs Hn. apply arr_items_ok; auto.
  - intros x Hx. pose proof (size_in_arr x l Hx). lia.
  - intros x Hx. rewrite nodup_keys_arr in Hn. auto.
Qed.

Lemma applicable_MP rfn kp search x : applicable (MP rfn kp search) x.
Proof. destruct x; exact I. Qed.

Lemma stages_ok (l : list json) (f : json -> mode) :
  (forall x, mode_rfn (f x) = false /\ mode_ok (f x) /\ guard (f x) /\ applicable (f x) x) ->
  size (JArr l) <= n -> nodup_keys (JArr l) ->
  ok1 (JArr l) (JArr (map (fun st => W (f st) st) l)).
Proof.
  intros Hf Hs Hn. apply O_arr. intros x Hx. destruct (Hf x) as (H1 & H2 & H3 & H4).
  apply IH; auto.
  - pose proof (size_in_arr x l Hx). lia.
  - rewrite nodup_keys_arr in Hn. auto.
Qed.

Lemma walk_value_member search kp sinit slast v :
  size v < n -> nodup_keys v ->
  member_ok slast v (walk_value tb cs c is_email A W false search kp sinit slast v).
Proof.
  intros Hs Hn. destruct v as [| b | num | s | l | l]; unfold walk_value; try (apply scalar_member; exact I).
  - right; right; right. apply IH; simpl; auto. apply exempt_empty.
  - right; right; right. apply IH; simpl; auto.
Qed.

Lemma pipeline_map_member_ok subk subv :
  size subv < n -> nodup_keys subv ->
  member_ok subk subv (pipeline_map_member tb cs c is_email A W false subk subv).
Proof.
  intros Hs Hn. destruct subv as [| b | num | s | l | l]; unfold pipeline_map_member; try (apply scalar_member; exact I).
  - right; right; right. apply (stages_ok l (fun st => MP false [] (is_in_search_stage tb st))); [intros; simpl; auto using applicable_MP | lia | auto].
  - right; right; right. apply IH; simpl; auto.
Qed.

Lemma sub_member_ok search nkp k m subk subv :
  within2 tb m -> size subv < n -> nodup_keys subv ->
  member_ok subk subv (snd (sub_member tb cs c is_email A W false search nkp k m subk subv)).
Proof.
  intros Hw Hs Hn. unfold sub_member.
  destruct (oget m subk) as [[t|mm|]|] eqn:Eo; cbn [snd fst]; try (apply walk_value_member; auto).
  assert (Hsub : In (subk, t) (sub_entries tb)) by (apply Hw; now apply keys_of_leaf).
  pose proof (sub_entries_all tb _ Hsub) as Hin.
  destruct t; cbn [snd fst]; try (apply walk_value_member; auto).
  - (* Pipeline *) destruct subv as [| | | | l |]; try (right; right; left; right; right; exists Pipeline; split; [left; reflexivity | split; [exact Hsub | exact I]]).
    right; right; right. apply IH; simpl; auto. apply exempt_empty.
  - (* Exempt *) left. exists Exempt. split; [right; left; reflexivity | exact Hin].
  - (* FieldName *) left. exists FieldName. split; [left; reflexivity | exact Hin].
  - (* OperatorArray *) destruct subv as [| | | | l |]; try (right; right; left; right; right; exists OperatorArray; split; [right; reflexivity | split; [exact Hsub | exact I]]).
    right; right; right. apply (stages_ok l (fun _ => MP false nkp search)); [intros; simpl; auto using applicable_MP | lia | auto].
  - (* Namespace *) left. exists Namespace. split; [right; right; reflexivity | exact Hin].
Qed.

Lemma obj_members_ok (l : list (string * json)) (g : string -> json -> string * json) :
  NoDup (map fst l) -> (forall k v, fst (g k v) = k) ->
  (forall kv, In kv l -> member_ok (fst kv) (snd kv) (snd (g (fst kv) (snd kv)))) ->
  ok1 (JObj l) (JObj (build (map (fun kv => g (fst kv) (snd kv)) l))).
Proof.
  intros Hnd Hf Hm. rewrite build_map_fst by assumption.
  apply (O_obj l (fun kv => snd (g (fst kv) (snd kv)))). exact Hm.
Qed.

Lemma p_op_MT kp k search v t : p_op tb c kp k search v = Some (MT t) -> get_op tb kp k search = Some (MT t).
Proof.
  unfold p_op. destruct (get_op tb kp k search) as [[t'|om|]|]; try (intros H; exact H).
  destruct v; try (intros H; exact H). destruct search; [discriminate | intros H; exact H].
Qed.

Lemma p_op_MMap kp k search v m : p_op tb c kp k search v = Some (MMap m) -> within2 tb m.
Proof.
  unfold p_op. destruct (get_op tb kp k search) as [[t'|om|]|] eqn:Eg; try discriminate.
  assert (Hw : within2 tb om) by (apply get_op_good in Eg; exact Eg).
  destruct v; try (intros H; injection H as <-; exact Hw).
  destruct search; intros H; injection H as <-; [|exact Hw].
  unfold augment_op. rewrite Hre. exact Hw.
Qed.

Lemma p_generic_member kp search k v :
  size v < n -> nodup_keys v ->
  member_ok k v (p_generic tb cs c is_email A W false kp search k v).
Proof.
  intros Hs Hn. unfold p_generic. destruct v as [| b | num | s | l | l]; try (apply walk_value_member; auto).
  destruct (starts_with_dollar s) eqn:Ed; cbn [andb negb].
  - right; right; right. now apply ok1_keep_dollar.
  - apply scalar_member. exact I.
Qed.

Lemma p_member_ok kp search k v :
  size v < n -> nodup_keys v ->
  member_ok k v (snd (p_member tb cs c is_email A W false kp search k v)).
Proof.
  intros Hs Hn. unfold p_member.
  destruct (p_op tb c kp k search v) as [[t|m|]|] eqn:Eop; cbn [snd fst]; try (apply p_generic_member; auto).
  - apply p_op_MT in Eop. apply get_op_good in Eop. simpl in Eop.
    destruct t; cbn [snd fst]; try (apply p_generic_member; auto);
      (destruct Eop as [Eop|Hin]; [discriminate|]).
    + (* Pipeline *)
      destruct v as [| b | num | s | l | l].
      1-4: right; right; left; left; split; [exact Hin | exact I].
      * right; right; right. apply IH; simpl; auto. apply exempt_empty.
      * right; right; right. apply nodup_keys_obj in Hn. destruct Hn as [Hnd Hch].
        apply (obj_members_ok l (fun k' v' => (k', pipeline_map_member tb cs c is_email A W false k' v'))); auto.
        intros kv Hkv. cbn [snd]. apply pipeline_map_member_ok; auto. pose proof (size_in_obj kv l Hkv). lia.
    + left. exists Exempt. split; [right; left; reflexivity | exact Hin].
    + left. exists FieldName. split; [left; reflexivity | exact Hin].
    + (* OperatorArray *)
      destruct v as [| | | | l |]; try (right; right; left; right; left; split; [exact Hin | exact I]).
      right; right; right. apply (stages_ok l (fun _ => MP false (kp ++ [k]) search)); [intros; simpl; auto using applicable_MP | lia | auto].
    + left. exists Namespace. split; [right; right; reflexivity | exact Hin].
  - apply p_op_MMap in Eop.
    destruct v as [| b | num | s | l | l]; cbn [snd]; try (apply p_generic_member; auto).
    right; right; right. apply nodup_keys_obj in Hn. destruct Hn as [Hnd Hch].
    apply (obj_members_ok l (sub_member tb cs c is_email A W false search (kp ++ [k]) k m)); auto.
    + intros. apply sub_member_fst.
    + intros kv Hkv. apply sub_member_ok; auto. pose proof (size_in_obj kv l Hkv). lia.
Qed.

Lemma q_member_ok search parent kp k v :
  meta_rootish tb parent -> size v < n -> nodup_keys v ->
  member_ok k v (snd (q_member tb cs c is_email A W false search parent kp k v)).
Proof.
  intros Hpw Hs Hn. unfold q_member. cbn [snd].
  set (found := match parent with MMap pm => oget pm k | _ => oget (Core tb) k end).
  assert (Hfound : forall mm, found = Some mm -> good tb k mm).
  { intros mm Hf. unfold found in Hf. destruct parent as [t|pm|]; simpl in Hpw.
    - eapply oget_good; [apply rootish_Core | exact Hf].
    - eapply oget_good; [exact Hpw | exact Hf].
    - eapply oget_good; [apply rootish_Core | exact Hf]. }
  assert (Hex : is_ty (match found with Some m => m | None => MNil end) Exempt = true -> sanct_full k).
  { destruct found as [[t| |]|] eqn:Ef; simpl; try discriminate. destruct t; try discriminate. intros _.
    specialize (Hfound _ eq_refl). simpl in Hfound. destruct Hfound as [Hx|Hx]; [discriminate|].
    exists Exempt. split; [right; left; reflexivity | exact Hx]. }
  destruct v as [| b | num | s | l | l].
  - right; right; right. apply ok1_keep_null.
  - destruct (is_ty _ Exempt) eqn:E; [left; now apply Hex | apply scalar_member; exact I].
  - destruct (is_ty _ Exempt) eqn:E; [left; now apply Hex | apply scalar_member; exact I].
  - destruct (starts_with_dollar s) eqn:Ed.
    + right; right; right. unfold dollar_string. cbn [andb]. now apply ok1_keep_dollar.
    + destruct (is_ty _ Exempt) eqn:E; [left; now apply Hex | apply scalar_member; exact I].
  - destruct (exempt_key [] k search) eqn:Ek.
    + left. eapply exempt_key_sanct; eauto.
    + right; right; right. apply IH; simpl; auto.
  - right; right; right. apply IH; simpl; auto.
    destruct found as [mm|] eqn:Ef; simpl; auto. specialize (Hfound _ eq_refl). destruct mm; simpl in *; auto.
    now apply within2_rootish.
Qed.

End Step.

Lemma p_leaf_ok kp search v : is_leaf v -> ok1 v (p_leaf tb cs c is_email A false kp search v).
Proof.
  intros Hl. unfold p_leaf.
  assert (Hs : forall v', is_leaf v' -> ok1 v' (scalar tb cs c is_email A kp ""%string v' search false)).
  { intros v' Hl'. destruct (scalar_strong kp ""%string v' search false Hl') as [H | [H | [H _]]].
    - unfold scalar. now apply O_leaf.
    - rewrite exempt_empty in H. discriminate.
    - discriminate H. }
  destruct v as [| b | num | s | l | l]; try contradiction; try (apply Hs; exact I).
  - apply ok1_keep_null.
  - destruct (starts_with_dollar s) eqn:Ed; [|apply Hs; exact I].
    unfold dollar_string. cbn [andb]. now apply ok1_keep_dollar.
Qed.

Theorem walk_ok1 : forall t m, applicable m t -> mode_rfn m = false -> mode_ok m -> guard m -> nodup_keys t -> ok1 t (W m t).
Proof.
  intros t. induction t as [t IHt] using json_size_ind. intros m Happ Hm Hok Hg Hn.
  assert (IH : forall t' m', size t' < size t -> mode_rfn m' = false -> mode_ok m' -> guard m' -> nodup_keys t' -> applicable m' t' -> ok1 t' (W m' t')).
  { intros; apply IHt; auto. }
  destruct t as [| b | num | s | l | l].
  1-4: destruct m as [rfn kp search | rfn search parent kp | pk rfn search sel kp]; simpl in Happ; try contradiction;
       simpl in Hm; subst; cbn [walk]; apply p_leaf_ok; exact I.
  - destruct m as [rfn kp search | rfn search parent kp | pk rfn search sel kp]; simpl in Hm, Happ; subst; try contradiction; simpl.
    + apply (arr_ok (size (JArr l)) IH); auto. apply exempt_empty.
    + apply (arr_ok (size (JArr l)) IH); auto.
  - destruct m as [rfn kp search | rfn search parent kp | pk rfn search sel kp]; simpl in Hm, Happ; subst; try contradiction; simpl.
    + pose proof Hn as Hn'. apply nodup_keys_obj in Hn'. destruct Hn' as [Hnd Hch].
      apply (obj_members_ok l (p_member tb cs c is_email A W false kp search)); auto.
      * intros. apply p_member_fst.
      * intros kv Hkv. apply (p_member_ok (size (JObj l)) IH); [now apply size_in_obj | now apply Hch].
    + pose proof Hn as Hn'. apply nodup_keys_obj in Hn'. destruct Hn' as [Hnd Hch].
      apply (obj_members_ok l (q_member tb cs c is_email A W false search parent kp)); auto.
      intros kv Hkv. apply (q_member_ok (size (JObj l)) IH); [destruct parent; simpl in *; auto | now apply size_in_obj | now apply Hch].
Qed.

End Surv.
