(* The Atlas branch of the whole command (Model/Job.v): where the redacted logs end up in the file system. *)
From Coq Require Import String List NArith ZArith Bool Ascii Lia DecimalString DecimalNat Decimal.
From Model Require Import Json Tables Walker Line Stream Base64 KeyFile Cli Atlas Job.
From Proofs Require Import StreamProofs KeyProofs AtlasProofs JobProofs.
Import ListNotations.
Open Scope list_scope.

(* <out>.<i> names different files for different i *)
Lemma to_uint_nonnil n : Nat.to_uint n <> Nil.
Proof.
  intros H. pose proof (Unsigned.of_to n) as E. rewrite H in E. simpl in E. subst n. discriminate H.
Qed.

Lemma dec_of_nat_inj i j : dec_of_nat i = dec_of_nat j -> i = j.
Proof.
  unfold dec_of_nat. intros H. apply Unsigned.to_uint_inj.
  pose proof (NilZero.usu _ (to_uint_nonnil i)) as Ei. pose proof (NilZero.usu _ (to_uint_nonnil j)) as Ej.
  rewrite H in Ei. rewrite Ei in Ej. now injection Ej.
Qed.

Lemma append_cancel_l (p a b : string) : (p ++ a)%string = (p ++ b)%string -> a = b.
Proof. induction p as [|ch p IH]; simpl; intros H; [exact H|]. injection H as H. auto. Qed.

Lemma out_path_inj out i j : (out ++ "." ++ dec_of_nat i)%string = (out ++ "." ++ dec_of_nat j)%string -> i = j.
Proof. intros H. apply append_cancel_l in H. apply append_cancel_l in H. now apply dec_of_nat_inj. Qed.

Lemma write_outs_frame_in out q : forall outs fs,
  (forall i o, In (i, o) outs -> q <> (out ++ "." ++ dec_of_nat i)%string) -> write_outs fs out outs q = fs q.
Proof.
  induction outs as [|[i o] r IH]; intros fs Hq; cbn [write_outs]; [reflexivity|].
  destruct (create fs _) as [fs'|] eqn:Ec; [|reflexivity].
  rewrite IH by (intros j o' Hin; apply (Hq j o'); now right).
  rewrite set_content_frame by (apply (Hq i o); now left).
  eapply create_frame; [exact Ec | apply (Hq i o); now left].
Qed.

Lemma creatable_after fs p d fs' q : create fs p = Some fs' -> q <> p ->
  (exists f, create fs q = Some f) -> exists f, create (set_content fs' p d) q = Some f.
Proof.
  intros Hc Hq [f Hf]. unfold create in *. rewrite set_content_frame by exact Hq. rewrite (create_frame _ _ _ _ Hc Hq).
  destruct (fs q) as [[|]|c m| |c m]; try discriminate; eexists; reflexivity.
Qed.

(* every listed output is written under its own name, with its own content *)
Theorem write_outs_spec out : forall outs fs,
  NoDup (map fst outs) ->
  (forall i o, In (i, o) outs -> exists f, create fs (out ++ "." ++ dec_of_nat i)%string = Some f) ->
  forall i o, In (i, o) outs -> exists m, write_outs fs out outs (out ++ "." ++ dec_of_nat i)%string = FFile o m.
Proof.
  induction outs as [|[i0 o0] r IH]; intros fs Hnd Hc i o Hin; [contradiction|].
  cbn [write_outs]. inversion Hnd as [|x xs Hnotin Hnd']; subst.
  destruct (Hc i0 o0 (or_introl eq_refl)) as [fs' Hfs']. rewrite Hfs'.
  destruct (create_at _ _ _ Hfs') as [m0 Hm0].
  assert (Hdiff : forall j o', In (j, o') r -> (out ++ "." ++ dec_of_nat j)%string <> (out ++ "." ++ dec_of_nat i0)%string).
  { intros j o' Hj E. apply out_path_inj in E. subst j. apply Hnotin. change i0 with (fst (i0, o')). now apply in_map. }
  destruct Hin as [E|Hin].
  - injection E as <- <-. rewrite write_outs_frame_in.
    + exists m0. eapply set_content_at. exact Hm0.
    + intros j o' Hj E. symmetry in E. exact (Hdiff j o' Hj E).
  - apply IH; [exact Hnd' | | exact Hin].
    intros j o' Hj. eapply creatable_after; [exact Hfs' | exact (Hdiff j o' Hj) | apply (Hc j o'); now right].
Qed.

(* small facts about combine (seq ..) and Forall2 *)
Lemma in_combine_seq {B} (bodies : list B) : forall s j b,
  In (j, b) (combine (seq s (List.length bodies)) bodies) -> nth_error bodies (j - s) = Some b /\ s <= j.
Proof.
  induction bodies as [|x r IH]; intros s j b Hin; [contradiction|].
  cbn [List.length seq combine] in Hin. destruct Hin as [E|Hin].
  - injection E as <- <-. rewrite Nat.sub_diag. split; [reflexivity|lia].
  - destruct (IH (S s) j b Hin) as [Hn Hle]. split; [|lia].
    replace (j - s) with (S (j - S s)) by lia. exact Hn.
Qed.

Lemma map_fst_combine_seq {B} (l : list B) : forall s, map fst (combine (seq s (List.length l)) l) = seq s (List.length l).
Proof. induction l as [|x r IH]; intros s; [reflexivity|]. cbn [List.length seq combine map fst]. now rewrite IH. Qed.

Lemma nth_error_combine_seq {B} (l : list B) : forall s i b,
  nth_error l i = Some b -> nth_error (combine (seq s (List.length l)) l) i = Some (s + i, b).
Proof.
  induction l as [|x r IH]; intros s i b H; [destruct i; discriminate|].
  destruct i as [|i]; cbn [List.length seq combine nth_error] in *.
  - injection H as <-. now rewrite Nat.add_0_r.
  - rewrite (IH (S s) i b H). f_equal. f_equal. lia.
Qed.

Lemma Forall2_nth_l {X Y} (R : X -> Y -> Prop) l l' : Forall2 R l l' ->
  forall i x, nth_error l i = Some x -> exists y, nth_error l' i = Some y /\ R x y.
Proof.
  induction 1 as [|a b l l' Hab Hrest IH]; intros i x Hi; [destruct i; discriminate|].
  destruct i as [|i]; cbn [nth_error] in *.
  - injection Hi as <-. exists b. auto.
  - exact (IH i x Hi).
Qed.

Section JobAtlas.
Variable tb : tables.
Variable cs : consts.

(* an Atlas job in an all-succeed world: the cluster description names [hosts], every host answers 200 with [bodies], every body is a gzip stream that
   ends normally and whose log holds no over-long line, every <out>.<i> can be created. Then the run ends with status 0, no downloaded log is left, and
   <out>.<i> holds exactly the redaction of host i's log - for every i *)
Theorem job_atlas_outputs : forall a w fs1 fs2 enc hosts bodies cb i body data,
  decide (flags_of a w) = CAccept MAtlas ->
  stage_out a w = Some fs1 -> stage_key a w fs1 = Some (fs2, enc) ->
  w_cluster (w_atlas w) = HStatus 200 cb -> w_hosts (w_atlas w) = Some hosts -> w_logs (w_atlas w) = ok_answers bodies ->
  List.length bodies = List.length hosts ->
  (forall j b, nth_error bodies j = Some b ->
     (exists f, create fs2 (a_out a ++ "." ++ dec_of_nat j)%string = Some f) /\
     exists d, w_gunzip w b = (d, REof) /\ snd (scan d REof) = SOk) ->
  nth_error bodies i = Some body -> w_gunzip w body = (data, REof) ->
  j_status (job tb cs a w) = Exit0 /\ j_tmp_left (job tb cs a w) = 0%nat /\
  exists m, j_fs (job tb cs a w) (a_out a ++ "." ++ dec_of_nat i)%string = FFile (stream tb cs (a_cfg a) enc data) m.
Proof.
  intros a w fs1 fs2 enc hosts bodies cb i body data Hd E1 E2 Hc Hh Hl Hlen Hall Hi Hz.
  pose proof (job_no_tmp_left tb cs a w) as Htmp.
  unfold job in *. rewrite Hd, E1, E2 in *. unfold stage_run in *. cbn [j_status j_fs j_tmp_left] in *.
  set (redact := fun d => match run_io tb cs (a_cfg a) enc d REof (fun _ => Accept) None with (ROk, o) => Some o | _ => None end) in *.
  set (gz := fun raw => match w_gunzip w raw with (d, REof) => Some d | _ => None end) in *.
  set (out_ok := fun j => match create fs2 (a_out a ++ "." ++ dec_of_nat j)%string with Some _ => true | None => false end) in *.
  unfold atlas_run in *.
  rewrite (requests_exact (w_atlas w) _ _ hosts bodies cb Hc Hh Hl Hlen) in *.
  rewrite <- Hlen in *.
  set (files := combine (seq 0 (List.length bodies)) bodies) in *.
  assert (Hfiles : Forall (fun f => out_ok (fst f) = true /\ exists d o, gz (snd f) = Some d /\ redact d = Some o) files).
  { apply Forall_forall. intros [j b] Hin. unfold files in Hin.
    destruct (in_combine_seq bodies 0 j b Hin) as [Hnth _]. rewrite Nat.sub_0_r in Hnth.
    destruct (Hall j b Hnth) as [[f Hf] (d & Hg & Hs)]. cbn [fst snd]. split.
    - unfold out_ok. now rewrite Hf.
    - exists d, (stream tb cs (a_cfg a) enc d). split; [unfold gz; now rewrite Hg|].
      unfold redact. rewrite (run_io_faultfree tb cs (a_cfg a) enc d (fun _ => Accept) None (fun _ => eq_refl) Hs). reflexivity. }
  destruct (per_file_ok gz redact out_ok files [] Hfiles) as (res & Hpf & Hfst & Hf2).
  cbn [app] in Hpf. rewrite Hpf in *. cbn [Atlas.r_status Atlas.r_outs Atlas.r_tmp_left] in *.
  split; [reflexivity|]. split; [exact Htmp|].
  (* the i-th result *)
  assert (Hres : In (i, stream tb cs (a_cfg a) enc data) res).
  { assert (Hfi : nth_error files i = Some (i, body)) by (unfold files; rewrite (nth_error_combine_seq bodies 0 i body Hi); reflexivity).
    destruct (Forall2_nth_l _ _ _ Hf2 i (i, body) Hfi) as ([j o] & Hrj & (d & Hg & Hr)).
    assert (Hj : j = i).
    { assert (E : nth_error (map fst res) i = Some j) by (rewrite nth_error_map, Hrj; reflexivity).
      rewrite Hfst, nth_error_map, Hfi in E. simpl in E. now injection E. }
    subst j. cbn [snd] in *.
    unfold gz in Hg. rewrite Hz in Hg. injection Hg as <-.
    assert (Hs : snd (scan data REof) = SOk) by (destruct (Hall i body Hi) as [_ (d' & Hg' & Hs')]; rewrite Hz in Hg'; injection Hg' as <-; exact Hs').
    unfold redact in Hr. rewrite (run_io_faultfree tb cs (a_cfg a) enc data (fun _ => Accept) None (fun _ => eq_refl) Hs) in Hr. injection Hr as <-.
    eapply nth_error_In; exact Hrj. }
  assert (Hnd : NoDup (map fst res)) by (rewrite Hfst; unfold files; rewrite map_fst_combine_seq; apply seq_NoDup).
  assert (Hcr : forall j o, In (j, o) res -> exists f, create fs2 (a_out a ++ "." ++ dec_of_nat j)%string = Some f).
  { intros j o Hin.
    assert (Hjf : In j (map fst files)) by (rewrite <- Hfst; change j with (fst (j, o)); now apply in_map).
    apply in_map_iff in Hjf. destruct Hjf as ([j' b] & Ej & Hinf). simpl in Ej. subst j'.
    rewrite Forall_forall in Hfiles. destruct (Hfiles (j, b) Hinf) as [Hok _]. cbn [fst] in Hok.
    unfold out_ok in Hok. destruct (create fs2 _) as [f|]; [eexists; reflexivity | discriminate]. }
  exact (write_outs_spec (a_out a) res fs2 Hnd Hcr i _ Hres).
Qed.

End JobAtlas.
