(* C09 (round trip through base64 and the decrypt command) and C11 (key-file life cycle). *)
From Coq Require Import NArith Lia.
From Model Require Import Json Base64 KeyFile JsonText Utf8.
From Proofs Require Import Base64Proofs.
Close Scope string_scope. Close Scope N_scope. Open Scope nat_scope. Open Scope list_scope.

Definition key_ok (k : list N) : Prop := List.length k = 64 /\ bytes_ok k.

Lemma read_key_encode k : key_ok k -> read_key (b64_encode k) = Some k.
Proof. intros [Hl Hb]. unfold read_key. rewrite b64_roundtrip by exact Hb. rewrite Hl. reflexivity. Qed.

(* ---------- C11 ---------- *)
Definition run_seq (st : kstate) (rnds : list (list N)) : kstate := fold_left (fun s r => fst (run_key s r)) rnds st.

Theorem valid_never_overwritten content m k rnds :
  read_key content = Some k ->
  run_seq (KFile content m) rnds = KFile content m /\
  forall r, snd (run_key (KFile content m) r) = KeyOk k.
Proof.
  intros H. split.
  - induction rnds as [|r rs IH]; [reflexivity | exact IH].
  - intros r. simpl. now rewrite H.
Qed.

Theorem created_once rnd rnds :
  key_ok rnd ->
  run_key KAbsent rnd = (KFile (b64_encode rnd) mode_0600, KeyOk rnd) /\
  run_seq KAbsent (rnd :: rnds) = KFile (b64_encode rnd) mode_0600 /\
  forall r, snd (run_key (KFile (b64_encode rnd) mode_0600) r) = KeyOk rnd.
Proof.
  intros H. pose proof (read_key_encode rnd H) as Hr.
  destruct (valid_never_overwritten _ mode_0600 _ rnds Hr) as [H1 H2].
  split; [reflexivity|]. split; [exact H1 | exact H2].
Qed.

Definition unusable (st : kstate) : Prop :=
  match st with
  | KFile content _ => read_key content = None
  | KDir | KParentMissing | KUnreadable => True
  | KAbsent => False
  end.

Theorem unusable_fails st rnds : unusable st ->
  run_seq st rnds = st /\ forall r, run_key st r = (st, KeyFail).
Proof.
  intros H.
  assert (Hr : forall r, run_key st r = (st, KeyFail)).
  { intros r. destruct st; simpl in *; try reflexivity; [contradiction | now rewrite H]. }
  split; [|exact Hr].
  induction rnds as [|r rs IH]; [reflexivity|]. simpl. rewrite Hr. exact IH.
Qed.

Theorem no_output_without_key {Out} (redact : list N -> Out) (empty : Out) st r :
  unusable st -> encrypt_run redact empty st r = (st, (false, empty)).
Proof. intros H. unfold encrypt_run. destruct (unusable_fails st [] H) as [_ Hr]. now rewrite Hr. Qed.

(* ---------- C09 ---------- *)
Section RoundTrip.
Variable enc : list N -> list N -> list N.             (* EncryptDeterministically(plaintext) under key *)
Variable dec : list N -> list N -> option (list N).
Hypothesis dec_enc : forall k m, dec k (enc k m) = Some m.
Hypothesis enc_bytes : forall k m, bytes_ok (enc k m).

(* the text placed in the string leaf: base64 of the ciphertext *)
Definition leaf_enc (k m : list N) : list ascii := b64_encode (enc k m).

Theorem decrypt_leaf_enc k m mode :
  key_ok k -> decrypt_cmd dec (KFile (b64_encode k) mode) (leaf_enc k m) = DOk m.
Proof.
  intros Hk. unfold decrypt_cmd, leaf_enc. rewrite read_key_encode by exact Hk.
  rewrite b64_roundtrip by apply enc_bytes. now rewrite dec_enc.
Qed.

Theorem leaf_enc_injective k m1 m2 : leaf_enc k m1 = leaf_enc k m2 -> m1 = m2.
Proof.
  intros H. apply b64_encode_inj in H; try apply enc_bytes.
  pose proof (dec_enc k m1) as H1. rewrite H in H1. rewrite dec_enc in H1. now injection H1.
Qed.

(* authenticity of the primitive (an assumption about AES-SIV): only genuine ciphertexts decrypt *)
Hypothesis dec_auth : forall k c m, dec k c = Some m -> c = enc k m.

(* whatever text is handed to decrypt: if a plaintext comes out, the text decodes to the genuine
   ciphertext of exactly that plaintext under the key in the file - an altered or truncated
   ciphertext, or another key, can only produce an error *)
Theorem decrypt_only_genuine k mode value m :
  key_ok k -> decrypt_cmd dec (KFile (b64_encode k) mode) value = DOk m ->
  b64_decode value = Some (enc k m).
Proof.
  intros Hk. unfold decrypt_cmd. rewrite read_key_encode by exact Hk.
  destruct (b64_decode value) as [ct|]; [|discriminate].
  destruct (dec k ct) as [m'|] eqn:E; [|discriminate]. intros H. injection H as ->.
  apply dec_auth in E. now subst.
Qed.

End RoundTrip.

(* ---------- base64 text needs no JSON escaping ---------- *)
Definition b64_alpha (ch : ascii) : Prop :=
  let k := N_of_ascii ch in (k = 43 \/ (47 <= k <= 57) \/ k = 61 \/ (65 <= k <= 90) \/ (97 <= k <= 122))%N.

Lemma esc_bytes_b64 l : Forall b64_alpha l -> esc_bytes (Copy 0) (map N_of l) = l.
Proof.
  induction l as [|ch l IH]; intros H; [reflexivity|].
  inversion H as [|? ? Hc Hl]; subst. cbn [map esc_bytes]. unfold N_of at 1 2.
  unfold b64_alpha in Hc. cbv zeta in Hc.
  assert (Hlt : (N_of_ascii ch <? 128)%N = true) by (apply N.ltb_lt; lia). rewrite Hlt.
  unfold esc_ascii.
  repeat match goal with |- context [(N_of_ascii ch =? ?c)%N] =>
    let E := fresh in destruct (N_of_ascii ch =? c)%N eqn:E; [apply N.eqb_eq in E; exfalso; lia|] end.
  assert (Hge : (N_of_ascii ch <? 32)%N = false) by (apply N.ltb_ge; lia). rewrite Hge. cbn [orb app].
  unfold ch_of. rewrite ascii_N_embedding. f_equal. now apply IH.
Qed.

Theorem print_b64_plain s : Forall b64_alpha (list_ascii_of_string s) ->
  print (JStr s) = """"%char :: list_ascii_of_string s ++ [""""%char].
Proof. intros H. cbn [print]. unfold print_string. now rewrite esc_bytes_b64. Qed.

Lemma encode_alpha n : forall l, List.length l <= n -> bytes_ok l -> Forall b64_alpha (b64_encode l).
Proof.
  assert (Hch : forall x, (x < 64)%N -> b64_alpha (b64_char x)).
  { intros x Hx. pose proof (b64_char_code x Hx) as Hc. unfold b64_alpha. cbv zeta in *. lia. }
  assert (Hpad : b64_alpha "="%char) by (unfold b64_alpha; simpl; lia).
  induction n as [|n IH]; intros l Hlen Hok.
  - destruct l; [constructor | simpl in Hlen; lia].
  - destruct l as [|a [|b [|c r]]]; [constructor | | |].
    + inversion Hok as [|? ? Ha _]; subst. cbn [b64_encode].
      repeat (constructor; [first [apply Hch; lia | exact Hpad]|]). constructor.
    + inversion Hok as [|? ? Ha Hr]; subst. inversion Hr as [|? ? Hb _]; subst. cbn [b64_encode].
      repeat (constructor; [first [apply Hch; lia | exact Hpad]|]). constructor.
    + inversion Hok as [|? ? Ha Hr]; subst. inversion Hr as [|? ? Hb Hr2]; subst. inversion Hr2 as [|? ? Hc Hr3]; subst.
      cbn [b64_encode]. repeat (constructor; [apply Hch; lia|]). apply IH; [simpl in Hlen; lia | exact Hr3].
Qed.

(* the emitted ciphertext leaf is printed as the bare base64 text between quotes *)
Theorem print_ciphertext_leaf l : bytes_ok l ->
  print (JStr (string_of_list_ascii (b64_encode l))) = """"%char :: b64_encode l ++ [""""%char].
Proof.
  intros H. rewrite print_b64_plain; rewrite list_ascii_of_string_of_list_ascii; [reflexivity|].
  now apply (encode_alpha (List.length l)).
Qed.
