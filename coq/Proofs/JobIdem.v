(* C19 at the level of the whole command: a plain local run whose input channel delivers the OUTPUT of a fault-free pass with the same
   redaction configuration either ends with status 0 and leaves at its destination exactly the bytes it read, or ends with status 1 because
   a line of that output reaches the reader's limit (finding F34). *)
From Coq Require Import String List NArith ZArith Bool Ascii Lia.
From Model Require Import Json Tables Walker Line Stream Base64 KeyFile Cli Atlas Job.
From Proofs Require Import StreamProofs StreamIdem KeyProofs AtlasProofs JobProofs.
Import ListNotations.
Open Scope list_scope.

Section JI.
Variable tb : tables.
Variable cs : consts.

Theorem job_second_run : forall a w m data bar,
  plain_local a w m ->
  (forall l o, redact_line tb cs (a_cfg a) None l = Out o -> redact_line tb cs (a_cfg a) None o = Out o) ->
  (forall fs1, stage_out a w = Some fs1 -> local_input a w m fs1 = Some (stream tb cs (a_cfg a) None data, REof, bar)) ->
  (j_status (job tb cs a w) = Exit0 /\ dest a (job tb cs a w) = stream tb cs (a_cfg a) None data)
  \/ (j_status (job tb cs a w) = Exit1 /\ snd (scan (stream tb cs (a_cfg a) None data) REof) = STooLong).
Proof.
  intros a w m data bar Hpl Hfix Hin. pose proof Hpl as (Hd & Hm & He & Hw & Hc).
  destruct (second_scan tb cs (a_cfg a) None Hfix data) as [Hl | Hok].
  - right. split; [|exact Hl].
    assert (exists fs1, stage_out a w = Some fs1) as (fs1 & E1).
    { unfold stage_out. destruct (nonempty_s (a_out a)) eqn:En.
      - destruct (Hc eq_refl) as [fs1 Hfs1]. exists fs1. exact Hfs1.
      - eexists; reflexivity. }
    assert (E2 : stage_key a w fs1 = Some (fs1, None)) by (unfold stage_key; rewrite He; reflexivity).
    refine (proj1 (job_toolong tb cs a w m fs1 fs1 None _ REof bar Hd Hm E1 E2 _ (Hin fs1 E1) Hw Hl)).
    intros _ Hk. rewrite He in Hk. discriminate.
  - left. destruct (job_local_output tb cs a w m _ bar Hpl Hin Hok) as [Hs Hdst]. split; [exact Hs|].
    rewrite Hdst. apply stream_fixed_point; [exact Hfix|]. rewrite Hok. discriminate.
Qed.

End JI.
