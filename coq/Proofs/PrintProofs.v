(* The printer never emits a raw line break: every emitted line is one physical line (C03, C07). *)
From Coq Require Import NArith Lia.
From Model Require Import Json Utf8 JsonText.
Close Scope string_scope. Close Scope N_scope. Open Scope nat_scope. Open Scope list_scope.

Definition clean (ch : ascii) : Prop := N_of_ascii ch <> 10%N /\ N_of_ascii ch <> 13%N.

Lemma clean_of_N b : (b < 256)%N -> b <> 10%N -> b <> 13%N -> clean (ascii_of_N b).
Proof. intros Hb H1 H2. unfold clean. rewrite N_ascii_embedding by exact Hb. auto. Qed.

Lemma hexd_clean n : clean (hexd n).
Proof.
  unfold hexd. destruct n as [|p]; [split; discriminate|].
  do 4 (destruct p as [p|p|]; try (split; discriminate)).
Qed.

Ltac clean_lits := repeat (constructor; [try (split; discriminate); try apply hexd_clean|]); try constructor.

Lemma esc_ascii_clean b : (b < 256)%N -> Forall clean (esc_ascii b).
Proof.
  intros Hb. unfold esc_ascii.
  destruct (b =? 34)%N; [clean_lits|]. destruct (b =? 92)%N; [clean_lits|]. destruct (b =? 8)%N; [clean_lits|].
  destruct (b =? 12)%N; [clean_lits|]. destruct (b =? 10)%N eqn:E10; [clean_lits|]. destruct (b =? 13)%N eqn:E13; [clean_lits|].
  destruct (b =? 9)%N; [clean_lits|].
  destruct ((b <? 32)%N || (b =? 60)%N || (b =? 62)%N || (b =? 38)%N); [clean_lits|].
  constructor; [|constructor]. apply N.eqb_neq in E10, E13. now apply clean_of_N.
Qed.

Lemma esc_bytes_clean l : Forall (fun b => (b < 256)%N) l -> forall sk, Forall clean (esc_bytes sk l).
Proof.
  induction l as [|b r IH]; intros Hl sk; [constructor|].
  inversion Hl as [|? ? Hb Hr]; subst. specialize (IH Hr).
  assert (Hhi : (b <? 128)%N = false -> clean (ch_of b)).
  { intros H. apply N.ltb_ge in H. apply clean_of_N; [exact Hb | lia | lia]. }
  assert (Hmain : Forall clean
     (if (b <? 128)%N then esc_ascii b ++ esc_bytes (Copy 0) r
      else match decode_rune (b :: r) with
           | None => ["\"; "u"; "f"; "f"; "f"; "d"]%char ++ esc_bytes (Copy 0) r
           | Some (cp, size) =>
             if (cp =? 8232)%N || (cp =? 8233)%N
             then ["\"; "u"; "2"; "0"; "2"; hexd (cp mod 16)]%char ++ esc_bytes (Drop (size - 1)) r
             else ch_of b :: esc_bytes (Copy (size - 1)) r
           end)).
  { destruct (b <? 128)%N eqn:E.
    - apply Forall_app. split; [now apply esc_ascii_clean | apply IH].
    - destruct (decode_rune (b :: r)) as [[cp size]|].
      + destruct ((cp =? 8232)%N || (cp =? 8233)%N).
        * apply Forall_app. split; [clean_lits | apply IH].
        * constructor; [now apply Hhi | apply IH].
      + apply Forall_app. split; [clean_lits | apply IH]. }
  cbn [esc_bytes]. destruct sk as [[|k]|[|k]]; try exact Hmain.
  - destruct (b <? 128)%N eqn:E.
    + apply Forall_app. split; [now apply esc_ascii_clean | apply IH].
    + constructor; [now apply Hhi | apply IH].
  - apply IH.
Qed.

Lemma N_of_bounded s : Forall (fun b => (b < 256)%N) (map N_of (list_ascii_of_string s)).
Proof. apply Forall_forall. intros b Hb. apply in_map_iff in Hb. destruct Hb as (ch & <- & _). apply N_ascii_bounded. Qed.

Lemma print_string_clean s : Forall clean (print_string s).
Proof.
  unfold print_string. constructor; [split; discriminate|].
  apply Forall_app. split; [apply esc_bytes_clean, N_of_bounded | clean_lits].
Qed.

(* ---------- number literals ---------- *)
Definition numchar (ch : ascii) : Prop :=
  is_digit ch = true \/ In ch ["-"; "+"; "."; "e"; "E"]%char.

Lemma numchar_clean ch : numchar ch -> clean ch.
Proof.
  intros [H | H].
  - unfold is_digit in H. apply andb_prop in H. destruct H as [H _]. apply N.leb_le in H. unfold N_of in H. split; lia.
  - simpl in H. repeat (destruct H as [<- | H]; [split; discriminate|]). contradiction.
Qed.

Lemma m_minus {A} (c0 : ascii) (l0 : list ascii) (x : list ascii -> A) (y : A) :
  Ascii.eqb c0 "-" = false -> (match c0 :: l0 with "-"%char :: r0 => x r0 | _ => y end) = y.
Proof. intros H. destruct c0 as [[] [] [] [] [] [] [] []]; try reflexivity. discriminate H. Qed.

Lemma m_dot {A} (c0 : ascii) (l0 : list ascii) (x : list ascii -> A) (y : A) :
  Ascii.eqb c0 "." = false -> (match c0 :: l0 with "."%char :: r0 => x r0 | _ => y end) = y.
Proof. intros H. destruct c0 as [[] [] [] [] [] [] [] []]; try reflexivity. discriminate H. Qed.

Lemma m_pm {A} (c0 : ascii) (l0 : list ascii) (a b : list ascii -> A) (y : A) :
  Ascii.eqb c0 "+" = false -> Ascii.eqb c0 "-" = false ->
  (match c0 :: l0 with "+"%char :: r0 => a r0 | "-"%char :: r0 => b r0 | _ => y end) = y.
Proof. intros H1 H2. destruct c0 as [[] [] [] [] [] [] [] []]; try reflexivity; discriminate. Qed.

Lemma take_digits_spec l : l = fst (take_digits l) ++ snd (take_digits l) /\ Forall numchar (fst (take_digits l)).
Proof.
  induction l as [|ch r IH]; simpl; [split; [reflexivity | constructor]|].
  destruct (is_digit ch) eqn:E.
  - destruct (take_digits r) as [d rest]. simpl in *. destruct IH as [IH1 IH2]. split; [now rewrite <- IH1|].
    constructor; [now left | exact IH2].
  - simpl. split; [reflexivity | constructor].
Qed.

Lemma parse_num_chars l lit r : parse_num l = Some (lit, r) -> Forall numchar lit.
Proof.
  unfold parse_num.
  assert (Hs : forall sign l1, (sign, l1) = match l with "-"%char :: r0 => (["-"%char], r0) | _ => ([], l) end -> Forall numchar sign).
  { intros sign l1 H. destruct l as [|c0 l0]; [injection H as -> _; constructor|].
    destruct (Ascii.eqb c0 "-") eqn:E.
    - apply Ascii.eqb_eq in E. subst. injection H as -> _. constructor; [right; simpl; auto | constructor].
    - rewrite (m_minus c0 l0 (fun r0 => (["-"%char], r0)) ([], c0 :: l0) E) in H. injection H as -> _. constructor. }
  destruct (match l with "-"%char :: r0 => (["-"%char], r0) | _ => ([], l) end) as [sign l1] eqn:Esign.
  specialize (Hs sign l1 eq_refl).
  destruct l1 as [|d r0]; [discriminate|].
  destruct (is_digit d) eqn:Ed; [|discriminate]. cbn [negb].
  set (ip := if Ascii.eqb d "0" then ([d], r0) else take_digits (d :: r0)).
  assert (Hip : Forall numchar (fst ip)).
  { unfold ip. destruct (Ascii.eqb d "0"); [constructor; [now left | constructor] | apply take_digits_spec]. }
  destruct ip as [int_part l2]. cbn [fst] in Hip.
  assert (Hfrac : forall fp l3, match l2 with
      | "."%char :: r2 => let (ds, l3) := take_digits r2 in match ds with [] => None | _ => Some ("."%char :: ds, l3) end
      | _ => Some ([], l2) end = Some (fp, l3) -> Forall numchar fp).
  { intros fp l3 H. destruct l2 as [|c2 r2]; [injection H as <- _; constructor|].
    destruct (Ascii.eqb c2 ".") eqn:E.
    - apply Ascii.eqb_eq in E. subst. pose proof (take_digits_spec r2) as [_ Hd]. destruct (take_digits r2) as [ds l3'].
      destruct ds; [discriminate|]. injection H as <- _. constructor; [right; simpl; auto | exact Hd].
    - rewrite (m_dot c2 r2 (fun r2 => let (ds, l3) := take_digits r2 in match ds with [] => None | _ => Some ("."%char :: ds, l3) end) (Some ([], c2 :: r2)) E) in H.
      injection H as <- _. constructor. }
  destruct (match l2 with
      | "."%char :: r2 => let (ds, l3) := take_digits r2 in match ds with [] => None | _ => Some ("."%char :: ds, l3) end
      | _ => Some ([], l2) end) as [[fp l3]|] eqn:Ef; [|discriminate].
  specialize (Hfrac fp l3 eq_refl).
  destruct l3 as [|e r3].
  - intros H. injection H as <- _. rewrite app_nil_r. repeat (apply Forall_app; split); auto.
  - destruct (Ascii.eqb e "e" || Ascii.eqb e "E") eqn:Ee.
    + assert (He : numchar e).
      { apply Bool.orb_prop in Ee. destruct Ee as [Ee|Ee]; apply Ascii.eqb_eq in Ee; subst; right; simpl; auto 10. }
      destruct (match r3 with "+"%char :: r' => (["+"%char], r') | "-"%char :: r' => (["-"%char], r') | _ => ([], r3) end) as [sg r4] eqn:Esg.
      assert (Hsg : Forall numchar sg).
      { destruct r3 as [|c3 r3']; [injection Esg as <- _; constructor|].
        destruct (Ascii.eqb c3 "+") eqn:E1; [apply Ascii.eqb_eq in E1; subst; injection Esg as <- _; constructor; [right; simpl; auto | constructor]|].
        destruct (Ascii.eqb c3 "-") eqn:E2; [apply Ascii.eqb_eq in E2; subst; injection Esg as <- _; constructor; [right; simpl; auto | constructor]|].
        rewrite (m_pm c3 r3' (fun r' => (["+"%char], r')) (fun r' => (["-"%char], r')) ([], c3 :: r3') E1 E2) in Esg. injection Esg as <- _. constructor. }
      pose proof (take_digits_spec r4) as [_ Hd]. destruct (take_digits r4) as [ds l4].
      destruct ds as [|d0 ds']; [discriminate|]. intros H. injection H as <- _.
      repeat (apply Forall_app; split); auto. constructor; [exact He|]. apply Forall_app; split; auto.
    + intros H. injection H as <- _. rewrite app_nil_r. repeat (apply Forall_app; split); auto.
Qed.

Lemma take_digits_eq l : l = fst (take_digits l) ++ snd (take_digits l).
Proof. apply take_digits_spec. Qed.

(* a valid number literal is the literal parse_num reads back: it consists of number characters only *)
Lemma valid_number_chars lit : valid_number lit = true -> Forall clean (list_ascii_of_string lit).
Proof.
  unfold valid_number. destruct (parse_num (list_ascii_of_string lit)) as [[l r]|] eqn:E; [|discriminate].
  destruct r; [|discriminate]. intros _.
  (* the literal returned by parse_num is the consumed prefix; with an empty rest it is the whole input *)
  assert (Hc : Forall numchar l) by (eapply parse_num_chars; eauto).
  assert (Heq : list_ascii_of_string lit = l).
  { revert E. unfold parse_num.
    destruct (match list_ascii_of_string lit with "-"%char :: r0 => (["-"%char], r0) | _ => ([], list_ascii_of_string lit) end) as [sign l1] eqn:Esign.
    assert (Hl : list_ascii_of_string lit = sign ++ l1).
    { destruct (list_ascii_of_string lit) as [|c0 l0]; [injection Esign as <- <-; reflexivity|].
      destruct (Ascii.eqb c0 "-") eqn:E0.
      - apply Ascii.eqb_eq in E0. subst. injection Esign as <- <-. reflexivity.
      - rewrite (m_minus c0 l0 (fun r0 => (["-"%char], r0)) ([], c0 :: l0) E0) in Esign. injection Esign as <- <-. reflexivity. }
    destruct l1 as [|d r0]; [discriminate|].
    destruct (is_digit d); [|discriminate]. cbn [negb].
    set (ip := if Ascii.eqb d "0" then ([d], r0) else take_digits (d :: r0)).
    assert (Hip : d :: r0 = fst ip ++ snd ip).
    { unfold ip. destruct (Ascii.eqb d "0"); [reflexivity | apply take_digits_eq]. }
    destruct ip as [int_part l2]. cbn [fst snd] in Hip.
    destruct (match l2 with
      | "."%char :: r2 => let (ds, l3) := take_digits r2 in match ds with [] => None | _ => Some ("."%char :: ds, l3) end
      | _ => Some ([], l2) end) as [[fp l3]|] eqn:Ef; [|discriminate].
    assert (Hf : l2 = fp ++ l3).
    { destruct l2 as [|c2 r2]; [injection Ef as <- <-; reflexivity|].
      destruct (Ascii.eqb c2 ".") eqn:E2.
      - apply Ascii.eqb_eq in E2. subst. pose proof (take_digits_eq r2) as Hd. destruct (take_digits r2) as [ds l3'].
        destruct ds; [discriminate|]. injection Ef as <- <-. simpl in *. now rewrite Hd.
      - rewrite (m_dot c2 r2 (fun r2 => let (ds, l3) := take_digits r2 in match ds with [] => None | _ => Some ("."%char :: ds, l3) end) (Some ([], c2 :: r2)) E2) in Ef.
        injection Ef as <- <-. reflexivity. }
    destruct l3 as [|e r3].
    - intros H. injection H as <-. rewrite Hl, Hip, Hf, ?app_nil_r. rewrite <- ?app_assoc. reflexivity.
    - destruct (Ascii.eqb e "e" || Ascii.eqb e "E").
      + destruct (match r3 with "+"%char :: r' => (["+"%char], r') | "-"%char :: r' => (["-"%char], r') | _ => ([], r3) end) as [sg r4] eqn:Esg.
        assert (Hsg : r3 = sg ++ r4).
        { destruct r3 as [|c3 r3']; [injection Esg as <- <-; reflexivity|].
          destruct (Ascii.eqb c3 "+") eqn:E1; [apply Ascii.eqb_eq in E1; subst; injection Esg as <- <-; reflexivity|].
          destruct (Ascii.eqb c3 "-") eqn:E2; [apply Ascii.eqb_eq in E2; subst; injection Esg as <- <-; reflexivity|].
          rewrite (m_pm c3 r3' (fun r' => (["+"%char], r')) (fun r' => (["-"%char], r')) ([], c3 :: r3') E1 E2) in Esg. injection Esg as <- <-. reflexivity. }
        pose proof (take_digits_eq r4) as Hd. destruct (take_digits r4) as [ds l4].
        destruct ds as [|d0 ds']; [discriminate|]. intros H. injection H as <- ->. simpl in Hd.
        rewrite Hl, Hip, Hf, Hsg, Hd. rewrite ?app_nil_r. rewrite <- ?app_assoc. reflexivity.
      + intros H. injection H as <- Hr. discriminate Hr. }
  rewrite Heq. eapply Forall_impl; [|exact Hc]. apply numchar_clean.
Qed.

(* ---------- the whole printer ---------- *)
Lemma sep_concat_clean (ls : list (list ascii)) : Forall (Forall clean) ls -> Forall clean (sep_concat ls).
Proof.
  induction ls as [|x r IH]; intros H; [constructor|].
  inversion H as [|? ? Hx Hr]; subst. specialize (IH Hr).
  destruct r as [|y r']; [exact Hx|].
  change (sep_concat (x :: y :: r')) with (x ++ ","%char :: sep_concat (y :: r')).
  apply Forall_app. split; [exact Hx|]. constructor; [split; discriminate | exact IH].
Qed.

From Proofs Require Import JsonFacts.

Theorem print_one_line t : printable t = true -> Forall clean (print t).
Proof.
  induction t as [t IH] using json_size_ind. intros Hp.
  destruct t as [| b | n | s | l | l]; cbn [print].
  - clean_lits.
  - destruct b; clean_lits.
  - now apply valid_number_chars.
  - apply print_string_clean.
  - constructor; [split; discriminate|]. apply Forall_app. split; [|clean_lits].
    apply sep_concat_clean. apply Forall_forall. intros x Hx. apply in_map_iff in Hx. destruct Hx as (y & <- & Hy).
    apply IH; [now apply size_in_arr|]. simpl in Hp. rewrite forallb_forall in Hp. auto.
  - constructor; [split; discriminate|]. apply Forall_app. split; [|clean_lits].
    apply sep_concat_clean. apply Forall_forall. intros x Hx. apply in_map_iff in Hx. destruct Hx as (kv & <- & Hkv).
    apply Forall_app. split; [apply print_string_clean|]. constructor; [split; discriminate|].
    apply IH; [now apply size_in_obj|]. simpl in Hp. rewrite forallb_forall in Hp. auto.
Qed.
