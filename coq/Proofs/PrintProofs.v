(* The printer never emits a raw line break: every emitted line is one physical line (C03, C07). *)
From Coq Require Import NArith Lia.
From Model Require Import Json Utf8 JsonText.
Close Scope string_scope. Close Scope N_scope. Open Scope nat_scope. Open Scope list_scope.

Definition clean (ch : ascii) : Prop := N_of_ascii ch <> 10%N /\ N_of_ascii ch <> 13%N.

Lemma clean_of_N b : (b < 256)%N -> b <> 10%N -> b <> 13%N -> clean (ascii_of_N b).
Proof. intros Hb H1 H2. unfold clean. rewrite N_ascii_embedding by exact Hb. auto. Qed.

Lemma hexd_clean n : clean (hexd n).
Proof.
  unfold hexd. destruct n as [|p]; [split; discriminate|].
  do 4 (destruct p as [p|p|]; try (split; discriminate)).
Qed.

Ltac clean_lits := repeat (constructor; [try (split; discriminate); try apply hexd_clean|]); try constructor.

Lemma esc_ascii_clean b : (b < 256)%N -> Forall clean (esc_ascii b).
Proof.
  intros Hb. unfold esc_ascii.
  destruct (b =? 34)%N; [clean_lits|]. destruct (b =? 92)%N; [clean_lits|]. destruct (b =? 8)%N; [clean_lits|].
  destruct (b =? 12)%N; [clean_lits|]. destruct (b =? 10)%N eqn:E10; [clean_lits|]. destruct (b =? 13)%N eqn:E13; [clean_lits|].
  destruct (b =? 9)%N; [clean_lits|].
  destruct ((b <? 32)%N || (b =? 60)%N || (b =? 62)%N || (b =? 38)%N); [clean_lits|].
  constructor; [|constructor]. apply N.eqb_neq in E10, E13. now apply clean_of_N.
Qed.

Lemma esc_bytes_clean l : Forall (fun b => (b < 256)%N) l -> forall sk, Forall clean (esc_bytes sk l).
Proof.
  induction l as [|b r IH]; intros Hl sk; [constructor|].
  inversion Hl as [|? ? Hb Hr]; subst. specialize (IH Hr).
  assert (Hhi : (b <? 128)%N = false -> clean (ch_of b)).
  { intros H. apply N.ltb_ge in H. apply clean_of_N; [exact Hb | lia | lia]. }
  assert (Hmain : Forall clean
     (if (b <? 128)%N then esc_ascii b ++ esc_bytes (Copy 0) r
      else match decode_rune (b :: r) with
           | None => ["\"; "u"; "f"; "f"; "f"; "d"]%char ++ esc_bytes (Copy 0) r
           | Some (cp, size) =>
             if (cp =? 8232)%N || (cp =? 8233)%N
             then ["\"; "u"; "2"; "0"; "2"; hexd (cp mod 16)]%char ++ esc_bytes (Drop (size - 1)) r
             else ch_of b :: esc_bytes (Copy (size - 1)) r
           end)).
  { destruct (b <? 128)%N eqn:E.
    - apply Forall_app. split; [now apply esc_ascii_clean | apply IH].
    - destruct (decode_rune (b :: r)) as [[cp size]|].
      + destruct ((cp =? 8232)%N || (cp =? 8233)%N).
        * apply Forall_app. split; [clean_lits | apply IH].
        * constructor; [now apply Hhi | apply IH].
      + apply Forall_app. split; [clean_lits | apply IH]. }
  cbn [esc_bytes]. destruct sk as [[|k]|[|k]]; try exact Hmain.
  - destruct (b <? 128)%N eqn:E.
    + apply Forall_app. split; [now apply esc_ascii_clean | apply IH].
    + constructor; [now apply Hhi | apply IH].
  - apply IH.
Qed.

Lemma N_of_bounded s : Forall (fun b => (b < 256)%N) (map N_of (list_ascii_of_string s)).
Proof. apply Forall_forall. intros b Hb. apply in_map_iff in Hb. destruct Hb as (ch & <- & _). apply N_ascii_bounded. Qed.

Lemma print_string_clean s : Forall clean (print_string s).
Proof.
  unfold print_string. constructor; [split; discriminate|].
  apply Forall_app. split; [apply esc_bytes_clean, N_of_bounded | clean_lits].
Qed.

(* ---------- number literals ---------- *)
From Proofs Require Import NumFacts.

Lemma numchar_clean ch : numchar ch -> clean ch.
Proof.
  intros [H | H].
  - unfold is_digit in H. apply andb_prop in H. destruct H as [H _]. apply N.leb_le in H. unfold N_of in H. split; lia.
  - simpl in H. repeat (destruct H as [<- | H]; [split; discriminate|]). contradiction.
Qed.

(* a valid number literal is the literal parse_num reads back: it consists of number characters only *)
Lemma valid_number_chars lit : valid_number lit = true -> Forall clean (list_ascii_of_string lit).
Proof.
  intros Hv. apply valid_number_text in Hv. apply parse_num_chars in Hv.
  eapply Forall_impl; [|exact Hv]. apply numchar_clean.
Qed.

(* ---------- the whole printer ---------- *)
Lemma sep_concat_clean (ls : list (list ascii)) : Forall (Forall clean) ls -> Forall clean (sep_concat ls).
Proof.
  induction ls as [|x r IH]; intros H; [constructor|].
  inversion H as [|? ? Hx Hr]; subst. specialize (IH Hr).
  destruct r as [|y r']; [exact Hx|].
  change (sep_concat (x :: y :: r')) with (x ++ ","%char :: sep_concat (y :: r')).
  apply Forall_app. split; [exact Hx|]. constructor; [split; discriminate | exact IH].
Qed.

From Proofs Require Import JsonFacts.

Theorem print_one_line t : printable t = true -> Forall clean (print t).
Proof.
  induction t as [t IH] using json_size_ind. intros Hp.
  destruct t as [| b | n | s | l | l]; cbn [print].
  - clean_lits.
  - destruct b; clean_lits.
  - now apply valid_number_chars.
  - apply print_string_clean.
  - constructor; [split; discriminate|]. apply Forall_app. split; [|clean_lits].
    apply sep_concat_clean. apply Forall_forall. intros x Hx. apply in_map_iff in Hx. destruct Hx as (y & <- & Hy).
    apply IH; [now apply size_in_arr|]. simpl in Hp. rewrite forallb_forall in Hp. auto.
  - constructor; [split; discriminate|]. apply Forall_app. split; [|clean_lits].
    apply sep_concat_clean. apply Forall_forall. intros x Hx. apply in_map_iff in Hx. destruct Hx as (kv & <- & Hkv).
    apply Forall_app. split; [apply print_string_clean|]. constructor; [split; discriminate|].
    apply IH; [now apply size_in_obj|]. simpl in Hp. rewrite forallb_forall in Hp. auto.
Qed.
