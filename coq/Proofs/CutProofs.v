(* C08, the cut in the middle of a line: the reader fails after a complete block A and part p of the
   next line. The scanner hands p to the loop as a last token; by prefix stability of the parser it
   is skipped, or it already is the whole object of that line - never something else. *)
From Coq Require Import NArith List Ascii String Bool Lia.
From Model Require Import Json Tables Walker Line JsonText Stream.
From Proofs Require Import StreamProofs ParsePrefix.
Import ListNotations.
Open Scope char_scope. Open Scope list_scope.

Lemma drop_cr_prefix p x : exists y, drop_cr (p ++ x) = drop_cr p ++ y.
Proof.
  induction p as [|a p IH]; [exists (drop_cr x); reflexivity|].
  destruct p as [|b p].
  - cbn [app]. destruct x as [|c x].
    + exists []. now rewrite app_nil_r.
    + change (drop_cr (a :: c :: x)) with (a :: drop_cr (c :: x)). cbn [drop_cr].
      destruct (Ascii.eqb a cr); [exists (a :: drop_cr (c :: x)) | exists (drop_cr (c :: x))]; reflexivity.
  - destruct IH as [y IH]. exists y. change ((a :: b :: p) ++ x) with (a :: ((b :: p) ++ x)).
    change (drop_cr (a :: b :: p)) with (a :: drop_cr (b :: p)).
    destruct ((b :: p) ++ x) as [|c r] eqn:E; [discriminate|]. change (drop_cr (a :: c :: r)) with (a :: drop_cr (c :: r)).
    rewrite IH. reflexivity.
Qed.

Section Cut.
Variable tb : tables.
Variable cs : consts.
Variable c : cfg.
Variable enc : encf.

(* one line, cut anywhere: what is emitted for the part is nothing, or what the whole line emits *)
Theorem cut_line p x :
  redact_line tb cs c enc (drop_cr p) = Skip \/
  redact_line tb cs c enc (drop_cr p) = redact_line tb cs c enc (drop_cr (p ++ x)).
Proof.
  destruct (drop_cr_prefix p x) as [y E]. rewrite E. unfold redact_line.
  destruct (parse_line (drop_cr p)) as [t|] eqn:Ep; [|now left].
  right. now rewrite (parse_line_prefix _ y t Ep).
Qed.

Lemma scan_partial p e : ~ In nl p -> p <> [] -> (len_N p < max_token)%N ->
  scan p e = ([drop_cr p], match e with REof => SOk | RErr => SReadErr end).
Proof.
  intros Hn Hp Hl. rewrite scan_unfold. rewrite (split_lines_nonl p Hn). cbn [fst snd scan_terminated].
  destruct p as [|a p]; [contradiction|].
  assert (E : (max_token <=? len_N (a :: p))%N = false) by (apply N.leb_gt; exact Hl). rewrite E. reflexivity.
Qed.

(* the stream: a read fault after block A and part p of the next line *)
Theorem cut_mid_line A p x : block_ok A -> ~ In nl p -> p <> [] -> (len_N p < max_token)%N ->
  fst (run_io tb cs c enc (A ++ p) RErr (fun _ => Accept) None) = RScanErr SReadErr /\
  exists last,
    snd (run_io tb cs c enc (A ++ p) RErr (fun _ => Accept) None) = stream tb cs c enc A ++ last /\
    (last = [] \/ last = emit tb cs c enc (drop_cr (p ++ x))).
Proof.
  intros HA Hn Hp Hl. unfold run_io.
  destruct (tokens_app A p RErr HA) as [E1 E2]. rewrite (scan_partial p RErr Hn Hp Hl) in E1, E2. cbn [fst snd] in E1, E2.
  destruct (scan (A ++ p) RErr) as [tokens final]. cbn [fst snd] in E1, E2. subst tokens final.
  rewrite loop_accept. cbn [fst snd res_of]. split; [reflexivity|].
  exists (emit tb cs c enc (drop_cr p)). split.
  - rewrite map_app, concat_app. cbn [map List.concat]. rewrite app_nil_r. cbn [app]. f_equal.
    unfold stream, run_io. destruct (scan A REof) as [ts fin]. rewrite loop_accept. reflexivity.
  - unfold emit. destruct (cut_line p x) as [E | E]; rewrite E; [now left | now right].
Qed.

End Cut.
