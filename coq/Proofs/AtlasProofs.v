(* C16, C17, C20 over the orchestration model of Atlas mode. *)
From Coq Require Import ZArith List String Lia.
From Model Require Import Atlas.
Import ListNotations.
Open Scope list_scope.

(* ---------- C16: the window ---------- *)
Lemma window_default now : window 0 0 now = ((now - 604800)%Z, now).
Proof. reflexivity. Qed.

Lemma window_default_ordered now : (fst (window 0 0 now) < snd (window 0 0 now))%Z.
Proof. rewrite window_default. simpl. lia. Qed.

Lemma window_explicit s e now : s <> 0%Z -> e <> 0%Z -> window s e now = (s, e).
Proof.
  intros Hs He. unfold window.
  destruct (Z.eqb_spec s 0); [contradiction|]. destruct (Z.eqb_spec e 0); [contradiction|]. reflexivity.
Qed.

(* ---------- C16: exactly the requested logs, in host order ---------- *)
Definition ok_answers (bodies : list bytes) : list hresp := map (fun b => HStatus 200 b) bodies.

Lemma download_hosts_ok w s e : forall hosts bodies idx tmp trace,
  List.length bodies = List.length hosts ->
  download_hosts w s e hosts (ok_answers bodies) idx tmp trace =
  (trace ++ flat_map (fun h => round w (fun a => RLog h a s e)) hosts, tmp ++ combine (seq idx (List.length hosts)) bodies, DlOk).
Proof.
  induction hosts as [|h hs IH]; intros bodies idx tmp trace Hlen.
  - destruct bodies; [|discriminate]. simpl. now rewrite !app_nil_r.
  - destruct bodies as [|b bs]; [discriminate|]. simpl in Hlen. injection Hlen as Hlen.
    cbn [download_hosts ok_answers map]. fold (ok_answers bs). rewrite IH by exact Hlen.
    cbn [flat_map List.length seq combine]. rewrite <- !app_assoc. reflexivity.
Qed.

Theorem requests_exact w s e hosts bodies cb :
  w_cluster w = HStatus 200 cb -> w_hosts w = Some hosts -> w_logs w = ok_answers bodies ->
  List.length bodies = List.length hosts ->
  download w s e =
  (round w RCluster ++ flat_map (fun h => round w (fun a => RLog h a s e)) hosts, combine (seq 0 (List.length hosts)) bodies, DlOk).
Proof.
  intros Hc Hh Hl Hlen. unfold download. rewrite Hc, Hh, Hl. now rewrite download_hosts_ok.
Qed.

(* each logical request is one authenticated request, preceded at most by its challenge round *)
Lemma round_shape w mk : round w mk = [mk false] \/ round w mk = [mk false; mk true].
Proof. unfold round. destruct (w_challenge w); auto. Qed.

(* the per-file stage: <outputFile>.<i> is exactly the redaction of the decompressed log of host i *)
Lemma per_file_ok gunzip redact writable : forall files outs,
  Forall (fun f => writable (fst f) = true /\ exists d o, gunzip (snd f) = Some d /\ redact d = Some o) files ->
  exists res, per_file gunzip redact writable files outs = (outs ++ res, Exit0) /\
              map fst res = map fst files /\
              Forall2 (fun f r => exists d, gunzip (snd f) = Some d /\ redact d = Some (snd r)) files res.
Proof.
  induction files as [|[i raw] rest IH]; intros outs H.
  - exists []. simpl. rewrite app_nil_r. auto.
  - inversion H as [|? ? [Hw (d & o & Hg & Hr)] Hrest]; subst. simpl in *.
    rewrite Hw, Hg, Hr. simpl. destruct (IH (outs ++ [(i, o)]) Hrest) as (res & E & Hk & Hf).
    exists ((i, o) :: res). rewrite E. rewrite <- app_assoc. simpl. split; [reflexivity|]. split; [now rewrite Hk|].
    constructor; [exists d; auto | exact Hf].
Qed.

(* ---------- C17: nothing is left in the temporary directory ---------- *)
Lemma download_hosts_fail_empty w s e : forall hosts answers idx tmp trace t tmp',
  download_hosts w s e hosts answers idx tmp trace = (t, tmp', DlFail) -> tmp' = [].
Proof.
  induction hosts as [|h hs IH]; intros answers idx tmp trace t tmp' H; simpl in H; [discriminate|].
  destruct answers as [|a rest]; [injection H as _ <-; reflexivity|].
  destruct a as [code body | sent body |]; try (injection H as _ <-; reflexivity).
  destruct code as [|code]; [injection H as _ <-; reflexivity|].
  do 200 (destruct code as [|code]; [try (injection H as _ <-; reflexivity); try (eapply IH; exact H)|]).
  injection H as _ <-. reflexivity.
Qed.

Theorem no_tmp_left gunzip redact writable w s e now :
  r_tmp_left (atlas_run gunzip redact writable w s e now) = [].
Proof.
  unfold atlas_run. destruct (download w _ _) as [[trace tmp] res] eqn:E. destruct res.
  - destruct (per_file gunzip redact writable tmp []). reflexivity.
  - simpl. unfold download in E.
    destruct (w_cluster w) as [code body | |]; try (injection E as _ <-; reflexivity).
    destruct (Nat.eqb code 200) eqn:Ec.
    + apply Nat.eqb_eq in Ec. subst code. destruct (w_hosts w) as [hosts|]; [|injection E as _ <-; reflexivity].
      eapply download_hosts_fail_empty; eauto.
    + assert (Hx : forall X (a b : X), match code with 200 => a | _ => b end = b).
      { intros X a b. do 201 (destruct code as [|code]; [try reflexivity; try discriminate Ec|]). reflexivity. }
      rewrite Hx in E. injection E as _ <-. reflexivity.
Qed.

Theorem failure_is_reported gunzip redact writable w s e now trace tmp :
  download w (fst (window s e now)) (snd (window s e now)) = (trace, tmp, DlFail) ->
  r_status (atlas_run gunzip redact writable w s e now) = Exit1 /\ r_outs (atlas_run gunzip redact writable w s e now) = [].
Proof. intros H. unfold atlas_run. rewrite H. auto. Qed.

(* ---------- C20: the private key is in no artefact; without a challenge no credential material at all ---------- *)
Lemma in_request a auth is_log i : In a (request_atoms auth is_log i) ->
  a = AProj \/ a = AHost i \/ a = ANum \/ a = ACluster \/ (auth = true /\ (a = APub \/ a = ADigestResponse)).
Proof. unfold request_atoms. destruct is_log, auth; simpl; intuition. Qed.

Lemma in_error a is_log i : In a (error_atoms is_log i) -> a = ANum \/ a = AServerText \/ a = AProj \/ a = AHost i \/ a = ACluster.
Proof. unfold error_atoms. destruct is_log; simpl; intuition. Qed.

(* every atom of every artefact of a run *)
Lemma in_run a challenge n fail : In a (run_atoms challenge n fail) ->
  a = AProj \/ a = ANum \/ a = ACluster \/ a = AServerText \/ (exists i, a = AHost i) \/ (challenge = true /\ (a = APub \/ a = ADigestResponse)).
Proof.
  unfold run_atoms. intros H.
  apply in_app_or in H. destruct H as [H|H]; [apply in_request in H; intuition (eauto; discriminate)|].
  apply in_app_or in H. destruct H as [H|H].
  { destruct challenge; [|contradiction]. apply in_request in H. intuition eauto. }
  apply in_app_or in H. destruct H as [H|H].
  - apply in_flat_map in H. destruct H as (i & _ & H).
    apply in_app_or in H. destruct H as [H|H]; [simpl in H; destruct H as [<-|[]]; eauto 10|].
    apply in_app_or in H. destruct H as [H|H]; [apply in_request in H; intuition (eauto 10; discriminate)|].
    destruct challenge; [|contradiction]. apply in_request in H. intuition eauto 10.
  - destruct fail as [i|]; [|contradiction]. apply in_error in H. intuition eauto 10.
Qed.

Theorem priv_never_in_artefacts challenge n fail : ~ In APriv (run_atoms challenge n fail).
Proof.
  intros H. apply in_run in H. destruct H as [H | [H | [H | [H | [[i H] | [_ [H | H]]]]]]]; discriminate.
Qed.

Theorem no_challenge_no_credentials n fail : ~ In APub (run_atoms false n fail) /\ ~ In ADigestResponse (run_atoms false n fail).
Proof.
  split; intros H; apply in_run in H; destruct H as [H | [H | [H | [H | [[i H] | [Hc _]]]]]]; discriminate.
Qed.
