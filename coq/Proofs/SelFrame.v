(* C14, precision: in selective mode (--redactFieldsRegexp R), outside Atlas Search stages, a
   subtree in which no name matches R - no key, no '$field' reference - under a path on which no
   name matches R is left exactly as it is, by every walker, for any tables. *)
From Coq Require Import Lia.
From Model Require Import Json Tables Walker.
From Proofs Require Import JsonFacts WalkerRel.
Close Scope string_scope. Open Scope list_scope.

Section SelFrame.
Variable tb : tables.
Variable cs : consts.
Variable c : cfg.
Variable is_email : string -> bool.
Variable A : actions.
Variable r : string -> bool.
Hypothesis Hre : re c = Some r.
Hypothesis Hnss : nss c = false.
Hypothesis Hempty : r ""%string = false.

Notation W := (walk tb cs c is_email A).

(* nothing in the tree is named like R: keys, '$field' references; and no key opens a search stage *)
Fixpoint quiet (t : json) : Prop :=
  match t with
  | JStr s => starts_with_dollar s = true -> r (trim_one_dollar s) = false
  | JArr l => (fix go (l : list json) : Prop := match l with [] => True | x :: rest => quiet x /\ go rest end) l
  | JObj l => (fix go (l : list (string * json)) : Prop :=
                 match l with [] => True
                 | kv :: rest => r (fst kv) = false /\ existsb (String.eqb (fst kv)) (TopSearch tb) = false /\ quiet (snd kv) /\ go rest end) l
  | _ => True
  end.

Lemma quiet_arr l : quiet (JArr l) <-> forall x, In x l -> quiet x.
Proof.
  simpl. induction l as [|y l IH]; split; intros H.
  - intros x [].
  - exact I.
  - intros x [->|Hx]; [tauto|]. apply IH; tauto.
  - split; [apply H; simpl; auto|]. apply IH. intros x Hx. apply H. simpl. auto.
Qed.

Lemma quiet_obj l : quiet (JObj l) <->
  forall kv, In kv l -> r (fst kv) = false /\ existsb (String.eqb (fst kv)) (TopSearch tb) = false /\ quiet (snd kv).
Proof.
  simpl. induction l as [|y l IH]; split; intros H.
  - intros x [].
  - exact I.
  - intros x [->|Hx]; [tauto|]. apply IH; tauto.
  - destruct (H y (or_introl eq_refl)) as (H1 & H2 & H3). repeat split; auto. apply IH. intros x Hx. apply H. simpl. auto.
Qed.

Lemma sel_quiet l : quiet (JArr l) -> sel_of c l = false.
Proof.
  intros Hq. unfold sel_of. rewrite Hre. rewrite quiet_arr in Hq.
  induction l as [|x l IH]; [reflexivity|]. cbn [existsb]. rewrite IH by (intros y Hy; apply Hq; simpl; auto).
  specialize (Hq x (or_introl eq_refl)). destruct x; try reflexivity. simpl in Hq.
  destruct (starts_with_dollar s); [now rewrite Hq | reflexivity].
Qed.

Lemma stage_quiet st : quiet st -> is_in_search_stage tb st = false.
Proof.
  intros Hq. destruct st; try reflexivity. unfold is_in_search_stage. rewrite quiet_obj in Hq.
  induction l as [|kv l IH]; [reflexivity|]. cbn [existsb].
  destruct (Hq kv (or_introl eq_refl)) as (_ & H2 & _). rewrite H2. apply IH. intros y Hy. apply Hq. simpl. auto.
Qed.

Definition nomatch (kp : list string) : Prop := existsb r kp = false.

Lemma nomatch_snoc kp k : nomatch kp -> r k = false -> nomatch (kp ++ [k]).
Proof. unfold nomatch. intros H1 H2. rewrite existsb_app. cbn. now rewrite H1, H2. Qed.

Lemma rma kp : nomatch kp -> re_matches_any c kp = false.
Proof. unfold re_matches_any. now rewrite Hre. Qed.

(* the decision point keeps the value *)
Lemma scalar_keep init lst v : nomatch (init ++ [lst]) -> scalar tb cs c is_email A init lst v false false = v.
Proof.
  intros Hn. unfold scalar, scalar_verdict.
  destruct (match get_op tb init lst false with Some m => is_ty m Exempt | None => false end); [destruct v; reflexivity|].
  rewrite Hre. unfold re_matches_any. rewrite Hre, Hn. cbn [negb andb]. destruct v; reflexivity.
Qed.

Definition mode_quiet (m : mode) : Prop :=
  match m with
  | MP rfn kp search => rfn = false /\ search = false /\ nomatch kp
  | MQ rfn search _ kp => rfn = false /\ search = false /\ nomatch kp
  | MA pk rfn search sel kp => rfn = false /\ search = false /\ sel = false /\ nomatch kp /\ r pk = false
  end.

Lemma build_id (l : list (string * json)) (g : string -> json -> string * json) :
  NoDup (map fst l) -> (forall kv, In kv l -> g (fst kv) (snd kv) = kv) ->
  build (map (fun kv => g (fst kv) (snd kv)) l) = l.
Proof.
  intros Hnd H. rewrite (map_ext_in _ (fun kv => kv)) by exact H. rewrite map_id. now apply build_nodup.
Qed.

Section Step.
Variable n : nat.
Hypothesis IH : forall t m, size t < n -> mode_quiet m -> nodup_keys t -> quiet t -> W m t = t.

Lemma arr_item_frame pk kp x : size x < n -> nomatch kp -> r pk = false -> nodup_keys x -> quiet x ->
  arr_item tb cs c is_email A W pk false false false kp x = x.
Proof.
  intros Hs Hk Hp Hn Hq. destruct x as [| b | num | s | l | l]; cbn [arr_item].
  - reflexivity.
  - rewrite (rma kp Hk). apply scalar_keep. unfold nomatch. cbn. now rewrite Hp.
  - rewrite (rma kp Hk). apply scalar_keep. unfold nomatch. cbn. now rewrite Hp.
  - destruct (starts_with_dollar s); [reflexivity|]. rewrite (rma kp Hk). apply scalar_keep. unfold nomatch. cbn. now rewrite Hp.
  - apply IH; auto. repeat split; auto.
  - apply IH; auto. repeat split; auto.
Qed.

Lemma arr_frame pk kp l : size (JArr l) <= n -> nomatch kp -> r pk = false -> nodup_keys (JArr l) -> quiet (JArr l) ->
  map (arr_item tb cs c is_email A W pk false false false kp) l = l.
Proof.
  intros Hs Hk Hp Hn Hq. rewrite <- (map_id l) at 2. apply map_ext_in. intros x Hx.
  rewrite nodup_keys_arr in Hn. rewrite quiet_arr in Hq. apply arr_item_frame; auto. pose proof (size_in_arr x l Hx). lia.
Qed.

Lemma walk_value_frame kp sinit slast v : size v < n -> nomatch kp -> nomatch (sinit ++ [slast]) -> nodup_keys v -> quiet v ->
  walk_value tb cs c is_email A W false false kp sinit slast v = v.
Proof.
  intros Hs Hk Hsl Hn Hq. destruct v as [| b | num | s | l | l]; cbn [walk_value]; try (now apply scalar_keep).
  - rewrite (sel_quiet l Hq). apply IH; auto. repeat split; auto.
  - apply IH; auto. repeat split; auto.
Qed.

Lemma fieldname_value_frame kp sinit slast keep v : size v < n -> nomatch kp -> nodup_keys v -> quiet v ->
  fieldname_value tb cs c is_email A W false false kp sinit slast keep v = v.
Proof.
  intros Hs Hk Hn Hq. unfold fieldname_value. destruct v as [| b | num | s | l | l]; try reflexivity.
  apply IH; auto. repeat split; auto.
Qed.

Lemma stages_frame l : size (JArr l) <= n -> nodup_keys (JArr l) -> quiet (JArr l) ->
  map (fun st => W (MP false [] (is_in_search_stage tb st)) st) l = l.
Proof.
  intros Hs Hn Hq. rewrite <- (map_id l) at 2. apply map_ext_in. intros st Hin.
  rewrite nodup_keys_arr in Hn. rewrite quiet_arr in Hq. rewrite (stage_quiet st (Hq st Hin)).
  apply IH; auto; [pose proof (size_in_arr st l Hin); lia | repeat split; reflexivity].
Qed.

Lemma elems_frame kp l : size (JArr l) <= n -> nomatch kp -> nodup_keys (JArr l) -> quiet (JArr l) ->
  map (fun e => W (MP false kp false) e) l = l.
Proof.
  intros Hs Hk Hn Hq. rewrite <- (map_id l) at 2. apply map_ext_in. intros e Hin.
  rewrite nodup_keys_arr in Hn. rewrite quiet_arr in Hq.
  apply IH; auto; [pose proof (size_in_arr e l Hin); lia | repeat split; auto].
Qed.

Lemma pipeline_map_member_frame subk subv : size subv < n -> r subk = false -> nodup_keys subv -> quiet subv ->
  pipeline_map_member tb cs c is_email A W false subk subv = subv.
Proof.
  intros Hs Hk Hn Hq. destruct subv as [| b | num | s | l | l]; cbn [pipeline_map_member];
    try (apply scalar_keep; unfold nomatch; cbn; now rewrite Hk).
  - f_equal. apply stages_frame; auto. lia.
  - apply IH; auto. repeat split; reflexivity.
Qed.

Lemma sub_member_frame nkp k m subk subv : size subv < n -> nomatch nkp -> r subk = false -> nodup_keys subv -> quiet subv ->
  sub_member tb cs c is_email A W false false nkp k m subk subv = (subk, subv).
Proof.
  intros Hs Hk Hsk Hn Hq. unfold sub_member. cbn [andb]. pose proof (nomatch_snoc nkp subk Hk Hsk) as Hk'.
  destruct (oget m subk) as [[[]|m'|]|]; try (f_equal; now apply walk_value_frame).
  - (* Pipeline *) f_equal. destruct subv as [| b | num | s | l | l]; try reflexivity.
    rewrite (sel_quiet l Hq). apply IH; auto. repeat split; auto.
  - (* FieldName *) f_equal. now apply fieldname_value_frame.
  - (* OperatorArray *) f_equal. destruct subv as [| b | num | s | l | l]; try reflexivity. f_equal. apply elems_frame; auto. lia.
  - (* Namespace *) now rewrite Hnss.
Qed.

Lemma p_generic_frame kp k v : size v < n -> nomatch kp -> r k = false -> nodup_keys v -> quiet v ->
  p_generic tb cs c is_email A W false kp false k v = v.
Proof.
  intros Hs Hk Hrk Hn Hq. pose proof (nomatch_snoc kp k Hk Hrk) as Hk'. unfold p_generic.
  destruct v as [| b | num | s | l | l]; try (now apply walk_value_frame).
  destruct (starts_with_dollar s && negb false); [reflexivity | now apply scalar_keep].
Qed.

Lemma p_member_frame kp k v : size v < n -> nomatch kp -> r k = false -> nodup_keys v -> quiet v ->
  p_member tb cs c is_email A W false kp false k v = (k, v).
Proof.
  intros Hs Hk Hrk Hn Hq. pose proof (nomatch_snoc kp k Hk Hrk) as Hk'. unfold p_member.
  assert (Ek : p_key tb A false kp k false = k) by reflexivity. rewrite Ek.
  assert (Eop : p_op tb c kp k false v = get_op tb kp k false).
  { unfold p_op. destruct (get_op tb kp k false) as [[t|om|]|]; try reflexivity. destruct v; reflexivity. }
  rewrite Eop.
  destruct (get_op tb kp k false) as [[[]|m|]|]; try (f_equal; now apply p_generic_frame).
  - (* Pipeline *) f_equal. destruct v as [| b | num | s | l | l]; try reflexivity.
    + rewrite (sel_quiet l Hq). apply IH; auto. repeat split; auto.
    + f_equal. pose proof Hn as Hn'. apply nodup_keys_obj in Hn'. destruct Hn' as [Hnd Hch]. pose proof Hq as Hq'. rewrite quiet_obj in Hq'.
      apply (build_id l (fun k0 v0 => (k0, pipeline_map_member tb cs c is_email A W false k0 v0))); [exact Hnd|].
      intros [k0 v0] Hkv. cbn [fst snd]. f_equal. destruct (Hq' _ Hkv) as (H1 & _ & H3). apply pipeline_map_member_frame; auto.
      pose proof (size_in_obj _ l Hkv). simpl in *. lia. apply (Hch _ Hkv).
  - (* FieldName *) f_equal. now apply fieldname_value_frame.
  - (* OperatorArray *) f_equal. destruct v as [| b | num | s | l | l]; try reflexivity. f_equal. apply elems_frame; auto. lia.
  - (* Namespace *) now rewrite Hnss.
  - (* operator map *)
    destruct v as [| b | num | s | l | l]; try (f_equal; now apply p_generic_frame).
    f_equal. f_equal. pose proof Hn as Hn'. apply nodup_keys_obj in Hn'. destruct Hn' as [Hnd Hch]. pose proof Hq as Hq'. rewrite quiet_obj in Hq'.
    apply (build_id l (sub_member tb cs c is_email A W false false (kp ++ [k]) k m)); [exact Hnd|].
    intros [k0 v0] Hkv. cbn [fst snd]. destruct (Hq' _ Hkv) as (H1 & _ & H3). apply sub_member_frame; auto.
    pose proof (size_in_obj _ l Hkv). simpl in *. lia. apply (Hch _ Hkv).
Qed.

Lemma q_member_frame parent kp k v : size v < n -> nomatch kp -> r k = false -> nodup_keys v -> quiet v ->
  q_member tb cs c is_email A W false false parent kp k v = (k, v).
Proof.
  intros Hs Hk Hrk Hn Hq. pose proof (nomatch_snoc kp k Hk Hrk) as Hk'. unfold q_member. cbn [andb]. f_equal.
  destruct v as [| b | num | s | l | l]; try reflexivity.
  - destruct (is_ty _ Exempt); [reflexivity | now apply scalar_keep].
  - destruct (is_ty _ Exempt); [reflexivity | now apply scalar_keep].
  - destruct (starts_with_dollar s); [reflexivity|]. destruct (is_ty _ Exempt); [reflexivity | now apply scalar_keep].
  - rewrite (sel_quiet l Hq). apply IH; auto. repeat split; auto.
  - apply IH; auto. repeat split; auto.
Qed.

End Step.

Theorem walk_quiet_frame : forall t m, mode_quiet m -> nodup_keys t -> quiet t -> W m t = t.
Proof.
  intros t. induction t as [t IHt] using json_size_ind. intros m Hm Hn Hq.
  assert (IH : forall t' m', size t' < size t -> mode_quiet m' -> nodup_keys t' -> quiet t' -> W m' t' = t').
  { intros t' m' Hs Hm' Hn' Hq'. apply IHt; auto. }
  destruct t as [| b | num | s | l | l].
  - destruct m; reflexivity.
  - destruct m as [rfn kp search | |]; try reflexivity. destruct Hm as (-> & -> & Hk). cbn [walk p_leaf].
    apply scalar_keep. now apply nomatch_snoc.
  - destruct m as [rfn kp search | |]; try reflexivity. destruct Hm as (-> & -> & Hk). cbn [walk p_leaf].
    apply scalar_keep. now apply nomatch_snoc.
  - destruct m as [rfn kp search | |]; try reflexivity. destruct Hm as (-> & -> & Hk). cbn [walk p_leaf].
    destruct (starts_with_dollar s); [reflexivity|]. apply scalar_keep. now apply nomatch_snoc.
  - destruct m as [rfn kp search | rfn search parent kp | pk rfn search sel kp]; cbn [walk].
    + destruct Hm as (-> & -> & Hk). rewrite (sel_quiet l Hq). f_equal. apply (arr_frame (size (JArr l)) IH); auto.
    + reflexivity.
    + destruct Hm as (-> & -> & -> & Hk & Hp). f_equal. apply (arr_frame (size (JArr l)) IH); auto.
  - pose proof Hn as Hn'. apply nodup_keys_obj in Hn'. destruct Hn' as [Hnd Hch]. pose proof Hq as Hq'. rewrite quiet_obj in Hq'.
    destruct m as [rfn kp search | rfn search parent kp | pk rfn search sel kp]; cbn [walk].
    + destruct Hm as (-> & -> & Hk). f_equal. apply (build_id l (p_member tb cs c is_email A W false kp false)); [exact Hnd|].
      intros [k0 v0] Hkv. cbn [fst snd]. destruct (Hq' _ Hkv) as (H1 & _ & H3).
      apply (p_member_frame (size (JObj l)) IH); auto. apply (size_in_obj _ l Hkv). apply (Hch _ Hkv).
    + destruct Hm as (-> & -> & Hk). f_equal. apply (build_id l (q_member tb cs c is_email A W false false parent kp)); [exact Hnd|].
      intros [k0 v0] Hkv. cbn [fst snd]. destruct (Hq' _ Hkv) as (H1 & _ & H3).
      apply (q_member_frame (size (JObj l)) IH); auto. apply (size_in_obj _ l Hkv). apply (Hch _ Hkv).
    + reflexivity.
Qed.

End SelFrame.
