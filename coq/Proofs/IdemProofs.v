(* C19: the scalar step is idempotent on its own output (every placeholder is recognised as a member
   of its own class), for placeholder-mode actions. *)
From Model Require Import Json Tables Walker.
From Proofs Require Import JsonFacts.
Close Scope string_scope. Open Scope list_scope.

Section Idem.
Variable tb : tables.
Variable cs : consts.
Variable c : cfg.
Variable is_email : string -> bool.
Variable A : actions.
Hypothesis Hstr : forall s ph, a_str A s ph = ph.
Hypothesis Hnum : forall n, a_num A n = c_num cs.
Hypothesis Hbool : forall b, a_bool A b = c_bool cs.
Hypothesis Hemail : is_email (c_email cs) = true.
Hypothesis Hrepl : is_email (repl c) = false.

Lemma scalar_idem init lst v search sel : is_leaf v ->
  scalar tb cs c is_email A init lst (scalar tb cs c is_email A init lst v search sel) search sel =
  scalar tb cs c is_email A init lst v search sel.
Proof.
  intros Hl. unfold scalar, scalar_verdict.
  destruct (match get_op tb init lst search with Some m => is_ty m Exempt | None => false end); [reflexivity|].
  destruct (negb search && _ && negb sel && negb _); [reflexivity|].
  destruct (String.eqb lst "$date") eqn:E1.
  { destruct v; try contradiction; simpl; rewrite ?Hstr, ?Hnum, ?Hbool; try reflexivity;
      [destruct (bools c) eqn:Eb; simpl; rewrite ?Hbool, ?Eb; simpl; rewrite ?Hbool; reflexivity
      |destruct (nums c) eqn:En; simpl; rewrite ?Hnum, ?En; simpl; rewrite ?Hnum; reflexivity]. }
  destruct (String.eqb lst "$oid") eqn:E2.
  { destruct v; try contradiction; simpl; rewrite ?Hstr, ?Hnum, ?Hbool; try reflexivity;
      [destruct (bools c) eqn:Eb; simpl; rewrite ?Hbool, ?Eb; simpl; rewrite ?Hbool; reflexivity
      |destruct (nums c) eqn:En; simpl; rewrite ?Hnum, ?En; simpl; rewrite ?Hnum; reflexivity]. }
  destruct (String.eqb lst "base64" && String.eqb (last_or_empty init) "$binary") eqn:E3.
  { destruct v; try contradiction; simpl; rewrite ?Hstr, ?Hnum, ?Hbool; try reflexivity;
      [destruct (bools c) eqn:Eb; simpl; rewrite ?Hbool, ?Eb; simpl; rewrite ?Hbool; reflexivity
      |destruct (nums c) eqn:En; simpl; rewrite ?Hnum, ?En; simpl; rewrite ?Hnum; reflexivity]. }
  destruct (String.eqb lst "subType" && String.eqb (last_or_empty init) "$binary") eqn:E4; [reflexivity|].
  destruct v as [| b | n | s | l | l]; try contradiction; simpl.
  - reflexivity.
  - destruct (bools c) eqn:Eb; simpl; rewrite ?Hbool, ?Eb; simpl; rewrite ?Hbool; reflexivity.
  - destruct (nums c) eqn:En; simpl; rewrite ?Hnum, ?En; simpl; rewrite ?Hnum; reflexivity.
  - destruct (is_email s) eqn:Ee; simpl; rewrite Hstr.
    + rewrite Hemail. simpl. now rewrite Hstr.
    + rewrite Hrepl. simpl. now rewrite Hstr.
Qed.

End Idem.
