(* C02 in selective mode, for the query-bearing values of a command document. *)
From Coq Require Import Lia.
From Model Require Import Json Tables Walker Line Email.
From Proofs Require Import JsonFacts TableFacts WalkerRel Survivors SurvivorsLine LineRel NonInterference SelHot SelNI.
Close Scope string_scope. Open Scope list_scope.

Section SelNILine.
Variable tb : tables.
Variable cs : consts.
Variable c : cfg.
Variable A : actions.
Variable r : string -> bool.
Hypothesis Hre : re c = Some r.
Hypothesis Hempty : ~ In (""%string, Exempt) (all_entries tb).
Hypothesis Hstr : forall s s' ph, a_str A s ph = a_str A s' ph.
Hypothesis Hnum : forall n n', a_num A n = a_num A n'.
Hypothesis Hbool : forall b b', a_bool A b = a_bool A b'.

Notation ss := (ssim tb c is_email r).
Notation plainr := (plain tb r).
Notation Wsni := (walk_sni tb cs c is_email A r Hre Hempty Hstr Hnum Hbool).

Theorem cmd_member_sni ins k v v' :
  zone_value ins k v = true -> plainr false v -> plainr false v' -> ss v v' ->
  cmd_member tb cs c A false ins k v = cmd_member tb cs c A false ins k v'.
Proof.
  intros Hz Hq Hq' H. pose proof (ssim_kind _ _ _ _ _ _ H) as Hk.
  assert (HQ : forall l l', v = JObj l -> v' = JObj l' -> q_obj tb cs c A false v = q_obj tb cs c A false v').
  { intros l l' -> ->. unfold q_obj, W. apply Wsni; simpl; auto. }
  assert (HA : forall l l', v = JArr l -> v' = JArr l' -> a_arr tb cs c A false v = a_arr tb cs c A false v').
  { intros l l' -> ->. unfold a_arr, W. apply Wsni; simpl; auto. }
  assert (HP : forall l l', v = JArr l -> v' = JArr l' -> pipe tb cs c A false v = pipe tb cs c A false v').
  { intros l l' -> ->. unfold pipe, W. f_equal.
    inversion H as [t | l0 l0' Hf |]; subst; [reflexivity|].
    pose proof Hq as Hql. rewrite plain_arr in Hql. pose proof Hq' as Hql'. rewrite plain_arr in Hql'.
    apply (map_Forall2 _ _ ss); [exact Hf|]. intros x y Hx Hy Hxy.
    rewrite (stage_plain tb r false x (Hql x Hx)), (stage_plain tb r false y (Hql' y Hy)).
    apply Wsni; simpl; auto. destruct x; exact I. }
  unfold cmd_member. unfold zone_value in Hz.
  destruct v as [| b | num | s | l | l], v' as [| b' | num' | s' | l' | l']; try contradiction; try discriminate.
  - (* arrays *)
    specialize (HA l l' eq_refl eq_refl). specialize (HP l l' eq_refl eq_refl).
    unfold key_in in *. cbn [existsb] in *.
    destruct (String.eqb k "query") eqn:E1; [apply String.eqb_eq in E1; subst; discriminate|].
    destruct (String.eqb k "filter") eqn:E2; [apply String.eqb_eq in E2; subst; discriminate|].
    destruct (String.eqb k "sort") eqn:E3; [apply String.eqb_eq in E3; subst; discriminate|].
    destruct (String.eqb k "q") eqn:E4; [apply String.eqb_eq in E4; subst; discriminate|].
    cbn [orb].
    destruct (String.eqb k "update") eqn:E5; [exact HA|].
    destruct (String.eqb k "u") eqn:E6; [exact HA|].
    cbn [orb].
    destruct (String.eqb k "updates") eqn:E7; [exact HA|].
    destruct (String.eqb k "deletes") eqn:E8; [exact HA|].
    cbn [orb] in *.
    destruct (String.eqb k "documents") eqn:E9.
    + apply String.eqb_eq in E9. subst k. simpl in Hz. rewrite Hz. exact HA.
    + destruct (String.eqb k "pipeline") eqn:E10; [exact HP|]. simpl in Hz. discriminate.
  - (* objects *)
    specialize (HQ l l' eq_refl eq_refl).
    unfold key_in in *. cbn [existsb] in *.
    destruct (String.eqb k "query"); [exact HQ|].
    destruct (String.eqb k "filter"); [exact HQ|].
    destruct (String.eqb k "sort"); [exact HQ|].
    destruct (String.eqb k "q"); [exact HQ|].
    cbn [orb] in *.
    destruct (String.eqb k "update"); [exact HQ|].
    destruct (String.eqb k "u"); [exact HQ|].
    discriminate.
Qed.

End SelNILine.
