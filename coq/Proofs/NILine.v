(* C02 lifted to command documents and whole lines. *)
From Coq Require Import Lia.
From Model Require Import Json Tables Walker Line.
From Proofs Require Import JsonFacts TableFacts WalkerRel Survivors SurvivorsLine LineRel NonInterference.
Close Scope string_scope. Open Scope list_scope.

Section NIL.
Variable tb : tables.
Variable cs : consts.
Variable c : cfg.
Variable A : actions.
Hypothesis Hre : re c = None.
Hypothesis Hempty : ~ In (""%string, Exempt) (all_entries tb).
Hypothesis Hstr : forall s s' ph, a_str A s ph = a_str A s' ph.
Hypothesis Hnum : forall n n', a_num A n = a_num A n'.
Hypothesis Hbool : forall b b', a_bool A b = a_bool A b'.

Notation cs2 := (csim tb c is_email).
Notation Wni := (walk_ni tb cs c is_email A Hre Hempty Hstr Hnum Hbool).

Lemma zone_value_csim ins k v v' : cs2 v v' -> zone_value ins k v = zone_value ins k v'.
Proof. intros H. pose proof (csim_kind _ _ _ _ _ H). destruct v, v'; try contradiction; reflexivity. Qed.

Lemma cmd_member_ni rfn ins k v v' :
  zone_value ins k v = true -> cs2 v v' ->
  cmd_member tb cs c A rfn ins k v = cmd_member tb cs c A rfn ins k v'.
Proof.
  intros Hz H. pose proof (csim_kind _ _ _ _ _ H) as Hk.
  assert (Hq : forall l l', v = JObj l -> v' = JObj l' -> q_obj tb cs c A rfn v = q_obj tb cs c A rfn v').
  { intros l l' -> ->. unfold q_obj, W. apply Wni; simpl; auto. }
  assert (Ha : forall l l', v = JArr l -> v' = JArr l' -> a_arr tb cs c A rfn v = a_arr tb cs c A rfn v').
  { intros l l' -> ->. unfold a_arr, W. apply Wni; simpl; auto. now apply exempt_empty. }
  assert (Hp : forall l l', v = JArr l -> v' = JArr l' -> pipe tb cs c A rfn v = pipe tb cs c A rfn v').
  { intros l l' -> ->. unfold pipe, W. f_equal.
    inversion H as [t | x x' Hl | l0 l0' Hf |]; subst; [reflexivity | simpl in Hl; contradiction |].
    apply (map_Forall2 _ _ cs2); [exact Hf|]. intros x y Hx Hy Hxy.
    rewrite <- (search_stage_ni tb c is_email x y Hxy). apply Wni; simpl; auto. destruct x; exact I. }
  unfold cmd_member. unfold zone_value in Hz.
  destruct v as [| b | num | s | l | l], v' as [| b' | num' | s' | l' | l']; try contradiction; try discriminate.
  - (* arrays *)
    specialize (Ha l l' eq_refl eq_refl). specialize (Hp l l' eq_refl eq_refl).
    unfold key_in in *. cbn [existsb] in *.
    destruct (String.eqb k "query") eqn:E1; [apply String.eqb_eq in E1; subst; discriminate|].
    destruct (String.eqb k "filter") eqn:E2; [apply String.eqb_eq in E2; subst; discriminate|].
    destruct (String.eqb k "sort") eqn:E3; [apply String.eqb_eq in E3; subst; discriminate|].
    destruct (String.eqb k "q") eqn:E4; [apply String.eqb_eq in E4; subst; discriminate|].
    cbn [orb].
    destruct (String.eqb k "update") eqn:E5; [exact Ha|].
    destruct (String.eqb k "u") eqn:E6; [exact Ha|].
    cbn [orb].
    destruct (String.eqb k "updates") eqn:E7; [exact Ha|].
    destruct (String.eqb k "deletes") eqn:E8; [exact Ha|].
    cbn [orb] in *.
    destruct (String.eqb k "documents") eqn:E9.
    + apply String.eqb_eq in E9. subst k. simpl in Hz. rewrite Hz. exact Ha.
    + destruct (String.eqb k "pipeline") eqn:E10; [exact Hp|]. simpl in Hz. discriminate.
  - (* objects *)
    specialize (Hq l l' eq_refl eq_refl).
    unfold key_in in *. cbn [existsb] in *.
    destruct (String.eqb k "query"); [exact Hq|].
    destruct (String.eqb k "filter"); [exact Hq|].
    destruct (String.eqb k "sort"); [exact Hq|].
    destruct (String.eqb k "q"); [exact Hq|].
    cbn [orb] in *.
    destruct (String.eqb k "update"); [exact Hq|].
    destruct (String.eqb k "u"); [exact Hq|].
    discriminate.
Qed.

(* two command documents: same keys; values identical, or query-bearing values related by csim *)
Definition cmd_sim (cmd cmd' : list (string * json)) : Prop :=
  Forall2 (fun kv kv' => fst kv = fst kv' /\
             (snd kv = snd kv' \/ (zone_value (has_key cmd "insert") (fst kv) (snd kv) = true /\ cs2 (snd kv) (snd kv')))) cmd cmd'.

Lemma cmd_sim_keys cmd cmd' : cmd_sim cmd cmd' -> map fst cmd = map fst cmd'.
Proof. unfold cmd_sim. generalize (has_key cmd "insert"). intros b. induction 1 as [|x y l l' [Hk _] _ IH]; [reflexivity | simpl; now rewrite Hk, IH]. Qed.

Lemma oget_keys {B} (l l' : list (string * B)) k : map fst l = map fst l' ->
  (match oget l k with Some _ => true | None => false end) = (match oget l' k with Some _ => true | None => false end).
Proof.
  revert l'. induction l as [|[a x] l IH]; intros [|[b y] l'] E; try discriminate; [reflexivity|].
  simpl in *. injection E as -> E. destruct (String.eqb b k); [reflexivity | now apply IH].
Qed.

Lemma redact_command_ni rfn cmd cmd' :
  cmd_sim cmd cmd' -> redact_command tb cs c A rfn cmd = redact_command tb cs c A rfn cmd'.
Proof.
  intros H. unfold redact_command.
  assert (Hins : has_key cmd "insert" = has_key cmd' "insert") by (unfold has_key; apply oget_keys; now apply cmd_sim_keys).
  rewrite <- Hins. unfold cmd_sim in H.
  apply (map_Forall2 _ _ _ _ _ H). intros [k v] [k' v'] _ _ [Hk Hv]. simpl in *. subst k'.
  destruct Hv as [-> | [Hz Hc]]; [reflexivity|].
  rewrite (cmd_member_ni rfn _ k v v' Hz Hc). reflexivity.
Qed.

End NIL.

Section NILine2.
Variable tb : tables.
Variable cs : consts.
Variable c : cfg.
Variable A : actions.
Hypothesis Hre : re c = None.
Hypothesis Hempty : ~ In (""%string, Exempt) (all_entries tb).
Hypothesis Hstr : forall s s' ph, a_str A s ph = a_str A s' ph.
Hypothesis Hnum : forall n n', a_num A n = a_num A n'.
Hypothesis Hbool : forall b b', a_bool A b = a_bool A b'.

Notation csm := (cmd_sim tb c).

Definition cmd_keys : list string := ["originatingCommand"; "cmd"; "command"]%string.

Definition attr_sim (a a' : list (string * json)) : Prop :=
  Forall2 (fun kv kv' => fst kv = fst kv' /\
     (snd kv = snd kv' \/ (key_in (fst kv) cmd_keys = true /\ exists cmd cmd', snd kv = JObj cmd /\ snd kv' = JObj cmd' /\ csm cmd cmd'))) a a'.

Definition entry_sim (e e' : list (string * json)) : Prop :=
  Forall2 (fun kv kv' => fst kv = fst kv' /\
     (snd kv = snd kv' \/ (fst kv = "attr"%string /\ exists a a', snd kv = JObj a /\ snd kv' = JObj a' /\ attr_sim a a'))) e e'.

Lemma oget_sim {R : string -> json -> json -> Prop} (l l' : list (string * json)) k :
  Forall2 (fun kv kv' => fst kv = fst kv' /\ (snd kv = snd kv' \/ R (fst kv) (snd kv) (snd kv'))) l l' ->
  (forall v v', ~ R k v v') -> oget l k = oget l' k.
Proof.
  intros H Hk. induction H as [|[a x] [b y] l l' [E Hv] _ IH]; [reflexivity|]. simpl in *. subst b.
  destruct (String.eqb a k) eqn:Ea; [|exact IH]. apply String.eqb_eq in Ea. subst a.
  destruct Hv as [-> | Hr]; [reflexivity | exfalso; eapply Hk; eauto].
Qed.

Lemma attr_member_ni rfn k v v' :
  (v = v' \/ (key_in k cmd_keys = true /\ exists cmd cmd', v = JObj cmd /\ v' = JObj cmd' /\ csm cmd cmd')) ->
  attr_member tb cs c A true rfn k v = attr_member tb cs c A true rfn k v'.
Proof.
  intros [-> | (Hk & cmd & cmd' & -> & -> & Hs)]; [reflexivity|].
  unfold attr_member. cbn [andb].
  assert (Hpl : forall x, (if rfn && String.eqb k "planSummary" then plan_value A (JObj x) else JObj x) = JObj x) by (intros; destruct (rfn && _); reflexivity).
  assert (Hip : forall x, (if ips c && String.eqb k "remote" then ip_value (JObj x) else JObj x) = JObj x) by (intros; destruct (ips c && _); reflexivity).
  rewrite !Hip. unfold cmd_keys in Hk. rewrite Hk.
  assert (Hh : forall x, (if nss c && String.eqb k "ns" then hash_str A (JObj x) else JObj x) = JObj x) by (intros; destruct (nss c && _); reflexivity).
  cbn [andb]. unfold do_command. rewrite !Hpl, !Hh. f_equal. now apply redact_command_ni.
Qed.

Theorem redact_entry_ni e e' : gate e = true -> entry_sim e e' -> redact_entry tb cs c A e = redact_entry tb cs c A e'.
Proof.
  intros Hgate H. unfold redact_entry.
  assert (Hg : gate e = gate e').
  { unfold gate.
    rewrite (oget_sim (R := fun k v v' => k = "attr"%string /\ exists a a', v = JObj a /\ v' = JObj a' /\ attr_sim a a') e e' "c"%string H) by (intros v v' [E _]; discriminate).
    rewrite (oget_sim (R := fun k v v' => k = "attr"%string /\ exists a a', v = JObj a /\ v' = JObj a' /\ attr_sim a a') e e' "msg"%string H) by (intros v v' [E _]; discriminate).
    reflexivity. }
  rewrite <- Hg, Hgate.
  apply (map_Forall2 _ _ _ _ _ H). intros [k v] [k' v'] _ _ [Hk Hv]. simpl in *. subst k'.
  destruct Hv as [-> | (-> & a & a' & -> & -> & Ha)]; [reflexivity|].
  cbn. f_equal. f_equal. unfold redact_attr.
  assert (E : eager_on c a = eager_on c a').
  { unfold eager_on.
    rewrite (oget_sim (R := fun k v v' => key_in k cmd_keys = true /\ exists cmd cmd', v = JObj cmd /\ v' = JObj cmd' /\ csm cmd cmd') a a' "ns"%string Ha) by (intros v v' [E _]; discriminate).
    reflexivity. }
  rewrite <- E. unfold attr_sim in Ha.
  apply (map_Forall2 _ _ _ _ _ Ha). intros [k v] [k' v'] _ _ [Hk Hv]. simpl in *. subst k'. f_equal.
  now apply attr_member_ni.
Qed.

End NILine2.
