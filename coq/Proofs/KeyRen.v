(* Field-name mode (--redactFieldNames), completeness for KEYS at every depth, in the places redacted by the query walker
   and the array walker (query / filter / sort / q / u / update / updates / deletes / documents): at every index path
   of the input that ends at a member of an object, the output has at the same path either the pseudonym of the input
   key, or the input key itself - and then that key is a WORD of the operator tables (a key of some table at some level).
   So a user field name that is not a table word is renamed wherever it occurs as a key, however deep, under whatever
   operators and arrays. (Names that ARE table words - today `if`, `then`, `else` and the like - are finding F33.)
   The pipeline walker is not covered here (its lookup goes through traverseMapPath, which answers for a key directly
   below a map-typed operator whatever the key is); for it the member-level theorem C15_stage_key_renamed stands. *)
From Coq Require Import Lia.
From Model Require Import Json Tables Walker.
From Proofs Require Import JsonFacts TableFacts WalkerRel RfnSim.
Close Scope string_scope. Open Scope list_scope.

(* every key of a table, at every level *)
Fixpoint all_keys_of (m : meta) : list string :=
  match m with
  | MMap l => flat_map (fun km => fst km :: all_keys_of (snd km)) l
  | _ => []
  end.

Definition words (tb : tables) : list string :=
  all_keys_of (MMap (Agg tb)) ++ all_keys_of (MMap (Core tb)) ++ all_keys_of (MMap (MapDefs tb)) ++
  all_keys_of (MMap (Search tb)) ++ all_keys_of (MMap (SearchAgg tb)).

(* the key of the member an index path ends at *)
Fixpoint jkey (t : json) (p : list nat) : option string :=
  match p with
  | [] => None
  | i :: r =>
    match t with
    | JObj l => match nth_error l i with
                | Some (k, v) => match r with [] => Some k | _ => jkey v r end
                | None => None
                end
    | JArr l => match nth_error l i with Some v => jkey v r | None => None end
    | _ => None
    end
  end.

Section KeyRen.
Variable tb : tables.
Variable cs : consts.
Variable c : cfg.
Variable is_email : string -> bool.
Variable A : actions.

Notation W := (walk tb cs c is_email A).
Notation hn := (a_hash A).

Definition word (k : string) : Prop := In k (words tb).

(* a (sub)table all of whose keys, at every level, are words *)
Definition kw (l : list (string * meta)) : Prop := incl (all_keys_of (MMap l)) (words tb).

Lemma kw_Core : kw (Core tb).
Proof. unfold kw, words. intros x H. apply in_or_app. right. apply in_or_app. now left. Qed.

Lemma kw_key l k m : kw l -> oget l k = Some m -> word k.
Proof.
  intros Hk Ho. apply Hk. apply oget_In in Ho. simpl. apply in_flat_map. exists (k, m). split; [exact Ho|]. now left.
Qed.

Lemma kw_sub l k l' : kw l -> oget l k = Some (MMap l') -> kw l'.
Proof.
  intros Hk Ho x Hx. apply Hk. apply oget_In in Ho. simpl. apply in_flat_map. exists (k, MMap l'). split; [exact Ho|]. now right.
Qed.

Definition kwm (m : meta) : Prop := match m with MMap l => kw l | _ => True end.

(* the relation between the input and the field-name-mode output *)
Definition KL (t o : json) : Prop :=
  forall p k, jkey t p = Some k -> jkey o p = Some (hn k) \/ (jkey o p = Some k /\ word k).

Lemma KL_leaf t o : is_leaf t -> KL t o.
Proof. intros Hl p k H. destruct p; [discriminate|]. destruct t; try contradiction; discriminate. Qed.

Lemma KL_arr l f : (forall x, In x l -> KL x (f x)) -> KL (JArr l) (JArr (map f l)).
Proof.
  intros H p k Hk. destruct p as [|i r]; [discriminate|]. cbn [jkey] in *. rewrite nth_error_map.
  destruct (nth_error l i) as [x|] eqn:E; [|discriminate]. cbn [option_map].
  apply (H x (nth_error_In _ _ E) r k Hk).
Qed.

Lemma KL_obj l (g : string * json -> string * json) :
  NoDup (map fst (map g l)) ->
  (forall kv, In kv l -> (fst (g kv) = hn (fst kv) \/ (fst (g kv) = fst kv /\ word (fst kv))) /\ KL (snd kv) (snd (g kv))) ->
  KL (JObj l) (JObj (build (map g l))).
Proof.
  intros Hn H. rewrite (build_nodup _ Hn). intros p k Hk. destruct p as [|i r]; [discriminate|]. cbn [jkey] in *.
  rewrite nth_error_map. destruct (nth_error l i) as [[k0 x]|] eqn:E; [|discriminate]. cbn [option_map].
  destruct (H (k0, x) (nth_error_In _ _ E)) as [Hf Hv]. cbn [fst snd] in *.
  destruct (g (k0, x)) as [k1 x1] eqn:Eg. cbn [fst snd] in *.
  destruct r as [|j r'].
  - injection Hk as <-. destruct Hf as [-> | [-> Hw]]; [now left | right; auto].
  - exact (Hv (j :: r') k Hk).
Qed.

Definition fits (m : mode) (t : json) : Prop :=
  match m, t with
  | MQ true _ par _, JObj _ => kwm par
  | MA _ true _ _ _, JArr _ => True
  | _, _ => False
  end.

Section Step.
Variable n : nat.
Hypothesis IH : forall t m, size t < n -> sib_ok A t -> nodup_keys t -> fits m t -> KL t (W m t).

Lemma arr_item_kl pk s sel kp x : size x < n -> sib_ok A x -> nodup_keys x ->
  KL x (arr_item tb cs c is_email A W pk true s sel kp x).
Proof.
  intros Hs Hk Hn. destruct x as [| b | num | str | l | l]; cbn [arr_item]; try (apply KL_leaf; exact I).
  - apply IH; auto. exact I.
  - apply IH; auto. exact I.
Qed.

Lemma q_member_key s parent kp k v : kwm parent ->
  fst (q_member tb cs c is_email A W true s parent kp k v) = hn k \/
  (fst (q_member tb cs c is_email A W true s parent kp k v) = k /\ word k).
Proof.
  intros Hp. unfold q_member. cbn [fst andb].
  destruct parent as [t|pm|]; cbn [kwm] in Hp.
  - destruct (oget (Core tb) k) as [m|] eqn:E; [right; split; [reflexivity | eapply kw_key; [apply kw_Core | exact E]] | now left].
  - destruct (oget pm k) as [m|] eqn:E; [right; split; [reflexivity | eapply kw_key; eassumption] | now left].
  - destruct (oget (Core tb) k) as [m|] eqn:E; [right; split; [reflexivity | eapply kw_key; [apply kw_Core | exact E]] | now left].
Qed.

Lemma q_member_kl s parent kp k v : kwm parent -> size v < n -> sib_ok A v -> nodup_keys v ->
  KL v (snd (q_member tb cs c is_email A W true s parent kp k v)).
Proof.
  intros Hp Hs Hk Hn. unfold q_member. cbn [snd].
  destruct v as [| b | num | str | l | l]; try (apply KL_leaf; exact I).
  - apply IH; auto. exact I.
  - apply IH; auto. cbn [fits].
    destruct parent as [t|pm|]; cbn [kwm] in Hp.
    + destruct (oget (Core tb) k) as [[t'|m'|]|] eqn:E; cbn [kwm]; auto. eapply kw_sub; [apply kw_Core | exact E].
    + destruct (oget pm k) as [[t'|m'|]|] eqn:E; cbn [kwm]; auto. eapply kw_sub; eassumption.
    + destruct (oget (Core tb) k) as [[t'|m'|]|] eqn:E; cbn [kwm]; auto. eapply kw_sub; [apply kw_Core | exact E].
Qed.

End Step.

Theorem walk_kl : forall t m, sib_ok A t -> nodup_keys t -> fits m t -> KL t (W m t).
Proof.
  intros t. induction t as [t IHt] using json_size_ind. intros m Hk Hn Hf.
  destruct t as [| b | num | str | l | l]; try (destruct m as [[] ? ? | [] ? ? ? | ? [] ? ? ?]; contradiction).
  - (* array *)
    destruct m as [rfn kp s | rfn s par kp | pk rfn s sel kp]; try (destruct rfn; contradiction).
    destruct rfn; [|contradiction]. cbn [walk].
    apply KL_arr. intros x Hx. rewrite sib_ok_arr in Hk. rewrite nodup_keys_arr in Hn.
    assert (IH' : forall t' m', size t' < size (JArr l) -> sib_ok A t' -> nodup_keys t' -> fits m' t' -> KL t' (W m' t'))
      by (intros t' m' Hs; apply IHt; exact Hs).
    apply (arr_item_kl (size (JArr l)) IH'); auto. apply (size_in_arr x l Hx).
  - (* object *)
    destruct m as [rfn kp s | rfn s par kp | pk rfn s sel kp]; try (destruct rfn; contradiction).
    destruct rfn; [|contradiction]. cbn [fits] in Hf. cbn [walk].
    pose proof Hn as Hn'. apply nodup_keys_obj in Hn'. destruct Hn' as [Hnd Hch].
    pose proof Hk as Hk'. rewrite sib_ok_obj in Hk'. destruct Hk' as [Hko Hkc].
    apply (KL_obj l (fun kv => q_member tb cs c is_email A W true s par kp (fst kv) (snd kv))).
    + apply (renamed_nodup A); auto. intros kv _. apply q_member_fst.
    + intros kv Hkv. split.
      * apply q_member_key. exact Hf.
      * assert (IH' : forall t' m', size t' < size (JObj l) -> sib_ok A t' -> nodup_keys t' -> fits m' t' -> KL t' (W m' t'))
          by (intros t' m' Hs; apply IHt; exact Hs).
        apply (q_member_kl (size (JObj l)) IH'); auto. apply (size_in_obj kv l Hkv).
Qed.

(* the headline: a key that is no table word is renamed, at every depth *)
Corollary walk_user_key_renamed : forall t m p k,
  sib_ok A t -> nodup_keys t -> fits m t -> jkey t p = Some k -> ~ word k -> jkey (W m t) p = Some (hn k).
Proof.
  intros t m p k Hk Hn Hf Hj Hw. destruct (walk_kl t m Hk Hn Hf p k Hj) as [H | [_ H]]; [exact H | contradiction].
Qed.

End KeyRen.

(* ---------- the query-bearing values of a command document ---------- *)
From Model Require Import Line Email.
Section KeyRenLine.
Variable tb : tables.
Variable cs : consts.
Variable c : cfg.
Variable A : actions.

(* the places handled by the query walker and the array walker, with the value shape each of them walks: a document under
   query / filter / sort / q, a document or an array (pipeline-style update) under update / u, an array under updates /
   deletes / documents (of an insert). A value of another shape is returned as it is (a document where a list is expected
   is not a command MongoDB accepts). *)
Definition walked (ins : bool) (k : string) (v : json) : Prop :=
  if key_in k ["query"; "filter"; "sort"; "q"]%string then match v with JArr _ => False | _ => True end
  else if key_in k ["update"; "u"]%string then True
  else if key_in k ["updates"; "deletes"]%string then match v with JObj _ => False | _ => True end
  else if String.eqb k "documents" then (if ins then match v with JObj _ => False | _ => True end else is_leaf v)
  else is_leaf v.

Theorem cmd_member_kl ins k v : walked ins k v -> sib_ok A v -> nodup_keys v ->
  KL tb A v (cmd_member tb cs c A true ins k v).
Proof.
  intros Hw Hk Hn. unfold cmd_member, walked in *.
  assert (Hobj : forall l, v = JObj l -> KL tb A v (q_obj tb cs c A true v)).
  { intros l ->. unfold q_obj, W. apply walk_kl; auto. exact I. }
  assert (Harr : forall l, v = JArr l -> KL tb A v (a_arr tb cs c A true v)).
  { intros l ->. unfold a_arr, W. apply walk_kl; auto. exact I. }
  destruct (key_in k ["query"; "filter"; "sort"; "q"]%string).
  { destruct v as [| | | | l | l]; try (apply KL_leaf; exact I); [contradiction | eapply Hobj; reflexivity]. }
  destruct (key_in k ["update"; "u"]%string).
  { unfold q_or_a. destruct v as [| | | | l | l]; try (apply KL_leaf; exact I); [eapply Harr; reflexivity | eapply Hobj; reflexivity]. }
  destruct (key_in k ["updates"; "deletes"]%string).
  { destruct v as [| | | | l | l]; try (apply KL_leaf; exact I); [eapply Harr; reflexivity | contradiction]. }
  destruct (String.eqb k "documents").
  { destruct ins.
    - destruct v as [| | | | l | l]; try (apply KL_leaf; exact I); [eapply Harr; reflexivity | contradiction].
    - now apply KL_leaf. }
  destruct (String.eqb k "pipeline"); [|now apply KL_leaf].
  destruct v; try contradiction; apply KL_leaf; exact I.
Qed.

End KeyRenLine.
