(* Consequences of the refinement relation rel3: shape preservation, position-wise
   description of every leaf, identity actions. *)
From Coq Require Import Lia.
From Model Require Import Json Tables Walker Line.
From Proofs Require Import JsonFacts WalkerRel LineRel.
Close Scope string_scope. Open Scope list_scope.

Section Cor.
Variable cs : consts.
Variable c : cfg.
Variable is_email : string -> bool.
Variables A1 A2 : actions.
Notation rel := (rel3 cs c is_email A1 A2).

Lemma okv_shape A v d : is_leaf v -> okv cs c is_email v d -> shape_of (apply_verdict A d v) = shape_of v.
Proof.
  intros Hl Hok. destruct d; simpl in *; try reflexivity.
  - destruct Hok as (s & -> & _). reflexivity.
  - destruct Hok as (_ & n & ->). reflexivity.
  - destruct Hok as (_ & b & ->). reflexivity.
  - destruct Hok as (_ & s & ->). reflexivity.
  - contradiction.
  - destruct Hok as (_ & _ & s & ->). reflexivity.
Qed.

Lemma rel3_shape t a b : rel t a b -> shape_of a = shape_of t /\ shape_of b = shape_of t.
Proof.
  revert a b. induction t as [t IH] using json_size_ind. intros a b H.
  inversion H as [v d Hl Hok | l fa fb Hall | l fa fb Hall]; subst.
  - split; apply okv_shape; assumption.
  - simpl. rewrite !map_map. split; f_equal; apply map_ext_in; intros x Hx;
      destruct (IH x (size_in_arr x l Hx) _ _ (Hall x Hx)); assumption.
  - simpl. rewrite !map_map. cbn [fst snd]. split; f_equal; apply map_ext_in; intros kv Hkv;
      destruct (IH (snd kv) (size_in_obj kv l Hkv) _ _ (Hall kv Hkv)) as [E1 E2]; rewrite ?E1, ?E2; reflexivity.
Qed.

(* position-wise: every leaf of the input is found at the same index path in both outputs,
   as ONE allowed verdict applied by the respective actions *)
Lemma rel3_jget t a b : rel t a b ->
  forall p v, jget t p = Some v -> is_leaf v ->
  exists d, okv cs c is_email v d /\ jget a p = Some (apply_verdict A1 d v) /\ jget b p = Some (apply_verdict A2 d v).
Proof.
  intros H p. revert t a b H. induction p as [|i p IH]; intros t a b H v Hg Hl.
  - simpl in Hg. injection Hg as ->.
    inversion H as [v' d Hl' Hok | l fa fb Hall | l fa fb Hall]; subst; try contradiction.
    exists d. simpl. auto.
  - inversion H as [v' d Hl' Hok | l fa fb Hall | l fa fb Hall]; subst.
    + destruct t; simpl in Hg; try discriminate; contradiction.
    + simpl in Hg |- *. rewrite !nth_error_map.
      destruct (nth_error l i) as [x|] eqn:E; [|discriminate]. simpl.
      apply (IH x _ _ (Hall x (nth_error_In _ _ E)) v Hg Hl).
    + simpl in Hg |- *. rewrite !nth_error_map.
      destruct (nth_error l i) as [kv|] eqn:E; [|discriminate]. simpl.
      apply (IH (snd kv) _ _ (Hall kv (nth_error_In _ _ E)) v Hg Hl).
Qed.

(* keys are never renamed: the key found along an index path is the same in all three trees *)
Fixpoint jkeys (t : json) (p : list nat) : list string :=
  match p with
  | [] => []
  | i :: r =>
    match t with
    | JArr l => match nth_error l i with Some x => jkeys x r | None => [] end
    | JObj l => match nth_error l i with Some kv => fst kv :: jkeys (snd kv) r | None => [] end
    | _ => []
    end
  end.

Lemma rel3_keys t a b : rel t a b -> forall p, jkeys a p = jkeys t p /\ jkeys b p = jkeys t p.
Proof.
  intros H p. revert t a b H. induction p as [|i p IH]; intros t a b H; [split; reflexivity|].
  inversion H as [v' d Hl' Hok | l fa fb Hall | l fa fb Hall]; subst.
  - destruct t; try contradiction; destruct d; simpl; try (split; reflexivity);
      repeat match goal with |- context [match ?x with _ => _ end] => destruct x end; split; reflexivity.
  - simpl. rewrite !nth_error_map. destruct (nth_error l i) as [x|] eqn:E; simpl; [|split; reflexivity].
    apply IH. apply Hall. eapply nth_error_In; eauto.
  - simpl. rewrite !nth_error_map. destruct (nth_error l i) as [kv|] eqn:E; simpl; [|split; reflexivity].
    destruct (IH (snd kv) _ _ (Hall kv (nth_error_In _ _ E))) as [E1 E2]. rewrite E1, E2. split; reflexivity.
Qed.

End Cor.

(* identity actions: the walk with them is the identity, so the first output of rel3 is the input *)
Definition id_actions (g : string) : actions :=
  {| a_str := fun s _ => s; a_num := fun n => n; a_bool := fun b => b; a_hash := fun s => s; a_generic := g |}.

Lemma apply_id g d v : d <> VGeneric -> (forall k, d <> VConst k) -> apply_verdict (id_actions g) d v = v.
Proof. intros H1 H2. destruct d, v; simpl; try reflexivity; try contradiction. exfalso. eapply H2; reflexivity. Qed.
