(* Operator classification tables (types; the values are generated into Gen/Tables.v)
   and the lookup functions getOp / traverseMapPath / augmentOp, transcribed from
   src/anonymizer.go. *)
From Model Require Export Json.

Inductive otype := Pipeline | Exempt | Redactable | FieldName | OperatorArray | OperatorMap | Namespace.

Inductive meta := MT (t : otype) | MMap (l : list (string * meta)) | MNil.

Record tables := {
  Agg : list (string * meta);
  Core : list (string * meta);
  MapDefs : list (string * meta);
  Search : list (string * meta);
  SearchAgg : list (string * meta);
  TopSearch : list string }.

Definition otype_eqb (a b : otype) : bool :=
  match a, b with
  | Pipeline, Pipeline | Exempt, Exempt | Redactable, Redactable | FieldName, FieldName
  | OperatorArray, OperatorArray | OperatorMap, OperatorMap | Namespace, Namespace => true
  | _, _ => false
  end.

(* Go: `x == OperatorArray` on an `any` *)
Definition is_ty (m : meta) (t : otype) : bool :=
  match m with MT t' => otype_eqb t' t | _ => false end.

(* RemoveElementAfter: drop the element after the first occurrence of marker that has a successor *)
Fixpoint remove_element_after (l : list string) (marker : string) : list string :=
  match l with
  | [] => []
  | v :: r =>
    match r with
    | [] => [v]
    | w :: r' => if String.eqb v marker then v :: r' else v :: remove_element_after r marker
    end
  end.

(* RemoveElementsBeforeIncluding: suffix after the first occurrence of marker that has a successor, else [] *)
Fixpoint remove_elements_before_including (l : list string) (marker : string) : list string :=
  match l with
  | [] => []
  | v :: r =>
    match r with
    | [] => []
    | _ :: _ => if String.eqb v marker then r else remove_elements_before_including r marker
    end
  end.

Inductive tres := Found (m : meta) | NotFound | OutOfFuel.

Section Lookup.
Variable tb : tables.

(* the `for i, part := range path` loop of traverseMapPath; returns either a final
   answer or the state after the loop (current, cut-off part if an OperatorMap was hit) *)
Inductive loopres := LDone (r : tres) | LRestart (rest : list string) | LEnd (cur : meta) (cut : option string).

Fixpoint tloop (path : list string) (cur : meta) : loopres :=
  match path with
  | [] => LEnd cur None
  | part :: rest =>
    match cur with
    | MMap m =>
      match oget m part with
      | None => LDone NotFound
      | Some val =>
        if (match rest with [] => false | _ => true end) && is_ty val OperatorArray then LRestart rest
        else if is_ty val OperatorMap then LEnd val (Some part)
        else tloop rest val
      end
    | _ => LDone NotFound
    end
  end.

Fixpoint traverse (fuel : nat) (path : list string) (root : list (string * meta)) (search : bool) : tres :=
  match fuel with
  | O => OutOfFuel
  | S fuel' =>
    match tloop path (MMap root) with
    | LDone r => r
    | LRestart rest => traverse fuel' rest (if search then Search tb else Core tb) search
    | LEnd cur cut =>
      let fin := match cur with MNil => NotFound | _ => Found cur end in
      match cut with
      | None => fin
      | Some cutp =>
        let without := remove_element_after path cutp in
        let newp := remove_elements_before_including without cutp in
        if Nat.ltb (List.length newp) (List.length path) then
          match oget (MapDefs tb) cutp with
          | Some (MMap m) => traverse fuel' newp m search
          | _ => fin
          end
        else fin
      end
    end
  end.

Definition traverse_top (path : list string) (root : list (string * meta)) (search : bool) : option meta :=
  match traverse (S (List.length path)) path root search with Found m => Some m | _ => None end.

(* getOp on a non-empty key path, given as init ++ [last] *)
Definition get_op (init : list string) (last : string) (search : bool) : option meta :=
  if search then
    match traverse_top (init ++ [last]) (SearchAgg tb) true with
    | Some m => Some m
    | None => oget (Search tb) last
    end
  else
    match oget (Core tb) last with
    | Some m => Some m
    | None => traverse_top (init ++ [last]) (Agg tb) false
    end.

Definition is_in_search_stage (t : json) : bool :=
  match t with
  | JObj l => existsb (fun kv => existsb (String.eqb (fst kv)) (TopSearch tb)) l
  | _ => false
  end.

End Lookup.

(* augmentOp (selective mode inside search stages): if some FieldName-typed argument of
   the operator names a field that does not match, its Redactable arguments become Exempt *)
Definition augment_op (re : option (string -> bool)) (op : list (string * meta)) (v : list (string * json)) : list (string * meta) :=
  match re with
  | None => op
  | Some r =>
    let conv := existsb (fun km =>
                  is_ty (snd km) FieldName &&
                  match oget v (fst km) with
                  | Some (JStr f) => negb (String.eqb f "") && negb (r f)
                  | _ => false
                  end) op in
    let op' := build op in
    if conv then map (fun km => if is_ty (snd km) Redactable then (fst km, MT Exempt) else km) op' else op'
  end.
