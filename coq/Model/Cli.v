(* The argument validation of `redact` (src/main.go) as a list of steps in PROGRAM ORDER:
   checks that end the run with exit status 1, and side effects (output-file creation /
   truncation, key-file generation or read, network requests). Presence of the 13 switches only. *)
From Coq Require Import List Bool.
Import ListNotations.

Record flags := {
  f_file : bool;       (* positional file argument *)
  f_stdin : bool;      (* stdin is not a character device: piped input *)
  f_out : bool;        (* --outputFile *)
  f_encrypt : bool;    (* --encrypt *)
  f_regexp : bool;     (* --redactFieldsRegexp *)
  f_fieldnames : bool; (* --redactFieldNames *)
  f_proj : bool; f_cluster : bool; f_pub : bool; f_priv : bool; f_start : bool; f_end : bool; (* --atlas... *)
  f_env : bool         (* ATLAS_PUBLIC_KEY and ATLAS_PRIVATE_KEY in the environment *)
}.

Inductive inmode := MAtlas | MFile | MStdin.
Inductive cverdict := CReject (reason : nat) | CAccept (m : inmode).
Inductive effect := ECreateOutput | EKeyFile | ENetwork | EReadInput.

Inductive step :=
| SCheck (bad : flags -> bool) (reason : nat)
| SEffect (when : flags -> bool) (e : effect).

Definition atlas_set (f : flags) : bool :=
  f_proj f || f_cluster f || f_start f || f_end f || f_pub f || f_priv f.

Definition main_steps : list step := [
  SCheck (fun f => f_regexp f && f_fieldnames f) 1;
  SCheck (fun f => xorb (f_start f) (f_end f)) 2;
  SCheck (fun f => xorb (f_proj f) (f_cluster f)) 3;
  SCheck (fun f => atlas_set f && f_file f) 4;
  SCheck (fun f => atlas_set f && f_stdin f) 5;
  SCheck (fun f => atlas_set f && negb (f_out f)) 6;
  SCheck (fun f => atlas_set f && (negb (f_proj f) || negb (f_cluster f))) 7;
  SCheck (fun f => atlas_set f && negb ((f_pub f || f_env f) && (f_priv f || f_env f))) 8;
  SCheck (fun f => negb (atlas_set f) && f_file f && f_stdin f) 9;
  SCheck (fun f => f_encrypt f && (f_stdin f || negb (f_out f)) && negb (atlas_set f)) 10;
  SCheck (fun f => negb (f_file f) && negb (f_stdin f) && negb (atlas_set f)) 11;
  SEffect (fun f => f_out f) ECreateOutput;
  SEffect (fun f => f_encrypt f) EKeyFile;
  SEffect (fun f => atlas_set f) ENetwork;
  SEffect (fun f => negb (atlas_set f)) EReadInput ].

Fixpoint run (steps : list step) (f : flags) (acc : list effect) : option nat * list effect :=
  match steps with
  | [] => (None, acc)
  | SCheck bad r :: rest => if bad f then (Some r, acc) else run rest f acc
  | SEffect when e :: rest => run rest f (if when f then acc ++ [e] else acc)
  end.

Definition mode_of (f : flags) : inmode := if atlas_set f then MAtlas else if f_file f then MFile else MStdin.

Definition decide (f : flags) : cverdict :=
  match fst (run main_steps f []) with Some r => CReject r | None => CAccept (mode_of f) end.

Definition effects (f : flags) : list effect := snd (run main_steps f []).

(* ---------- the values behind the switches ----------
   main.go tests the VALUES: a string-valued flag counts when it is not the empty string, a date when it is
   not 0, the positional file argument when it is there (len(args) == 1, also when it is ""), and
   --redactFieldNames (a string array) when it was given at all (also with the value ""). *)
Inductive sval := SAbsent | SEmpty | SGiven.            (* not on the command line / the empty string / a non-empty string *)
Inductive dval := DAbsent | DZero | DNeg | DPos.        (* not on the command line / 0 / negative / positive *)

Record raw := {
  r_file : sval; r_stdin : bool; r_out : sval; r_encrypt : bool; r_regexp : sval; r_fieldnames : sval;
  r_proj : sval; r_cluster : sval; r_pub : sval; r_priv : sval; r_start : dval; r_end : dval; r_env : bool }.

Definition nonempty (v : sval) : bool := match v with SGiven => true | _ => false end.
Definition present (v : sval) : bool := match v with SAbsent => false | _ => true end.
Definition nonzero (v : dval) : bool := match v with DNeg | DPos => true | _ => false end.

Definition abstract (r : raw) : flags :=
  {| f_file := present (r_file r); f_stdin := r_stdin r; f_out := nonempty (r_out r); f_encrypt := r_encrypt r;
     f_regexp := nonempty (r_regexp r); f_fieldnames := present (r_fieldnames r);
     f_proj := nonempty (r_proj r); f_cluster := nonempty (r_cluster r); f_pub := nonempty (r_pub r); f_priv := nonempty (r_priv r);
     f_start := nonzero (r_start r); f_end := nonzero (r_end r); f_env := r_env r |}.

Definition decide_raw (r : raw) : cverdict := decide (abstract r).
Definition effects_raw (r : raw) : list effect := effects (abstract r).
