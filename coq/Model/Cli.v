(* The argument validation of `redact` (src/main.go) as a list of steps in PROGRAM ORDER:
   checks that end the run with exit status 1, and side effects (output-file creation /
   truncation, key-file generation or read, network requests). Presence of the 13 switches only. *)
From Coq Require Import List Bool.
Import ListNotations.

Record flags := {
  f_file : bool;       (* positional file argument *)
  f_stdin : bool;      (* stdin is not a character device: piped input *)
  f_out : bool;        (* --outputFile *)
  f_encrypt : bool;    (* --encrypt *)
  f_regexp : bool;     (* --redactFieldsRegexp *)
  f_fieldnames : bool; (* --redactFieldNames *)
  f_proj : bool; f_cluster : bool; f_pub : bool; f_priv : bool; f_start : bool; f_end : bool; (* --atlas... *)
  f_env : bool         (* ATLAS_PUBLIC_KEY and ATLAS_PRIVATE_KEY in the environment *)
}.

Inductive inmode := MAtlas | MFile | MStdin.
Inductive cverdict := CReject (reason : nat) | CAccept (m : inmode).
Inductive effect := ECreateOutput | EKeyFile | ENetwork | EReadInput.

Inductive step :=
| SCheck (bad : flags -> bool) (reason : nat)
| SEffect (when : flags -> bool) (e : effect).

Definition atlas_set (f : flags) : bool :=
  f_proj f || f_cluster f || f_start f || f_end f || f_pub f || f_priv f.

Definition main_steps : list step := [
  SCheck (fun f => f_regexp f && f_fieldnames f) 1;
  SCheck (fun f => xorb (f_start f) (f_end f)) 2;
  SCheck (fun f => xorb (f_proj f) (f_cluster f)) 3;
  SCheck (fun f => atlas_set f && f_file f) 4;
  SCheck (fun f => atlas_set f && f_stdin f) 5;
  SCheck (fun f => atlas_set f && negb (f_out f)) 6;
  SCheck (fun f => atlas_set f && (negb (f_proj f) || negb (f_cluster f))) 7;
  SCheck (fun f => atlas_set f && negb ((f_pub f || f_env f) && (f_priv f || f_env f))) 8;
  SCheck (fun f => negb (atlas_set f) && f_file f && f_stdin f) 9;
  SCheck (fun f => f_encrypt f && (f_stdin f || negb (f_out f)) && negb (atlas_set f)) 10;
  SCheck (fun f => negb (f_file f) && negb (f_stdin f) && negb (atlas_set f)) 11;
  SEffect (fun f => f_out f) ECreateOutput;
  SEffect (fun f => f_encrypt f) EKeyFile;
  SEffect (fun f => atlas_set f) ENetwork;
  SEffect (fun f => negb (atlas_set f)) EReadInput ].

Fixpoint run (steps : list step) (f : flags) (acc : list effect) : option nat * list effect :=
  match steps with
  | [] => (None, acc)
  | SCheck bad r :: rest => if bad f then (Some r, acc) else run rest f acc
  | SEffect when e :: rest => run rest f (if when f then acc ++ [e] else acc)
  end.

Definition mode_of (f : flags) : inmode := if atlas_set f then MAtlas else if f_file f then MFile else MStdin.

Definition decide (f : flags) : cverdict :=
  match fst (run main_steps f []) with Some r => CReject r | None => CAccept (mode_of f) end.

Definition effects (f : flags) : list effect := snd (run main_steps f []).
