(* SHA-256 (FIPS 180-4) over byte lists, words as N below 2^32. Executable; validated
   against Go's crypto/sha256 by the correspondence check on every run. *)
From Coq Require Import NArith List String Ascii.
Import ListNotations.
Open Scope N_scope.

Definition w32 : N := 4294967296.
Definition mask32 : N := 4294967295.
Definition add32 (a b : N) : N := N.land (a + b) mask32.
Definition rotr (n x : N) : N := N.lor (N.shiftr x n) (N.land (N.shiftl x (32 - n)) mask32).
Definition shr (n x : N) : N := N.shiftr x n.
Definition not32 (x : N) : N := N.lxor x 4294967295.
Definition ch (x y z : N) : N := N.lxor (N.land x y) (N.land (not32 x) z).
Definition maj (x y z : N) : N := N.lxor (N.lxor (N.land x y) (N.land x z)) (N.land y z).
Definition bsig0 x := N.lxor (N.lxor (rotr 2 x) (rotr 13 x)) (rotr 22 x).
Definition bsig1 x := N.lxor (N.lxor (rotr 6 x) (rotr 11 x)) (rotr 25 x).
Definition ssig0 x := N.lxor (N.lxor (rotr 7 x) (rotr 18 x)) (shr 3 x).
Definition ssig1 x := N.lxor (N.lxor (rotr 17 x) (rotr 19 x)) (shr 10 x).

Definition K256 : list N := [
 0x428a2f98; 0x71374491; 0xb5c0fbcf; 0xe9b5dba5; 0x3956c25b; 0x59f111f1; 0x923f82a4; 0xab1c5ed5;
 0xd807aa98; 0x12835b01; 0x243185be; 0x550c7dc3; 0x72be5d74; 0x80deb1fe; 0x9bdc06a7; 0xc19bf174;
 0xe49b69c1; 0xefbe4786; 0x0fc19dc6; 0x240ca1cc; 0x2de92c6f; 0x4a7484aa; 0x5cb0a9dc; 0x76f988da;
 0x983e5152; 0xa831c66d; 0xb00327c8; 0xbf597fc7; 0xc6e00bf3; 0xd5a79147; 0x06ca6351; 0x14292967;
 0x27b70a85; 0x2e1b2138; 0x4d2c6dfc; 0x53380d13; 0x650a7354; 0x766a0abb; 0x81c2c92e; 0x92722c85;
 0xa2bfe8a1; 0xa81a664b; 0xc24b8b70; 0xc76c51a3; 0xd192e819; 0xd6990624; 0xf40e3585; 0x106aa070;
 0x19a4c116; 0x1e376c08; 0x2748774c; 0x34b0bcb5; 0x391c0cb3; 0x4ed8aa4a; 0x5b9cca4f; 0x682e6ff3;
 0x748f82ee; 0x78a5636f; 0x84c87814; 0x8cc70208; 0x90befffa; 0xa4506ceb; 0xbef9a3f7; 0xc67178f2].

Definition H256 : list N := [0x6a09e667; 0xbb67ae85; 0x3c6ef372; 0xa54ff53a; 0x510e527f; 0x9b05688c; 0x1f83d9ab; 0x5be0cd19].

(* big-endian words of a byte list (length a multiple of 4) *)
Fixpoint words_of (bs : list N) : list N :=
  match bs with
  | a :: b :: c :: d :: r => (a * 16777216 + b * 65536 + c * 256 + d) :: words_of r
  | _ => []
  end.

(* message schedule kept newest-first *)
Fixpoint extend (n : nat) (rev_ws : list N) : list N :=
  match n with
  | O => rev_ws
  | S n' =>
    let w2 := nth 1 rev_ws 0 in let w7 := nth 6 rev_ws 0 in
    let w15 := nth 14 rev_ws 0 in let w16 := nth 15 rev_ws 0 in
    extend n' (add32 (add32 (ssig1 w2) w7) (add32 (ssig0 w15) w16) :: rev_ws)
  end.

Definition schedule (block_words : list N) : list N := rev (extend 48 (rev block_words)).

Definition st := (N * N * N * N * N * N * N * N)%type.

Definition round (s : st) (kw : N * N) : st :=
  let '(a, b, c, d, e, f, g, h) := s in
  let t1 := add32 (add32 (add32 h (bsig1 e)) (add32 (ch e f g) (fst kw))) (snd kw) in
  let t2 := add32 (bsig0 a) (maj a b c) in
  (add32 t1 t2, a, b, c, add32 d t1, e, f, g).

Definition compress (hs : st) (block_words : list N) : st :=
  let '(a, b, c, d, e, f, g, h) := fold_left round (combine K256 (schedule block_words)) hs in
  let '(a0, b0, c0, d0, e0, f0, g0, h0) := hs in
  (add32 a0 a, add32 b0 b, add32 c0 c, add32 d0 d, add32 e0 e, add32 f0 f, add32 g0 g, add32 h0 h).

Fixpoint be_bytes (n : nat) (x : N) : list N :=
  match n with O => [] | S n' => be_bytes n' (x / 256) ++ [x mod 256] end.

Definition pad (msg : list N) : list N :=
  let len := N.of_nat (List.length msg) in
  let zeros := N.to_nat ((55 + 64 - (len mod 64)) mod 64) in
  msg ++ [128] ++ repeat 0 zeros ++ be_bytes 8 (len * 8).

Fixpoint blocks (fuel : nat) (ws : list N) (hs : st) : st :=
  match fuel with
  | O => hs
  | S f => match ws with
           | [] => hs
           | _ => blocks f (skipn 16 ws) (compress hs (firstn 16 ws))
           end
  end.

Definition sha256_words (msg : list N) : list N :=
  let ws := words_of (pad msg) in
  let '(a, b, c, d, e, f, g, h) :=
      blocks (S (List.length ws)) ws (0x6a09e667, 0xbb67ae85, 0x3c6ef372, 0xa54ff53a, 0x510e527f, 0x9b05688c, 0x1f83d9ab, 0x5be0cd19) in
  [a; b; c; d; e; f; g; h].

Definition bytes_of_string (s : string) : list N := map N_of_ascii (list_ascii_of_string s).

Definition hex_digit (n : N) : ascii :=
  match n with
  | 0 => "0" | 1 => "1" | 2 => "2" | 3 => "3" | 4 => "4" | 5 => "5" | 6 => "6" | 7 => "7"
  | 8 => "8" | 9 => "9" | 10 => "a" | 11 => "b" | 12 => "c" | 13 => "d" | 14 => "e" | _ => "f"
  end%char.

Fixpoint hex_of (digits : nat) (x : N) : list ascii :=
  match digits with O => [] | S d => hex_of d (x / 16) ++ [hex_digit (x mod 16)] end.

(* first 8 bytes of the digest as 16 lower-case hex digits: Go's fmt "%x" of h[:8] *)
Definition sha8_hex (s : string) : string :=
  match sha256_words (bytes_of_string s) with
  | a :: b :: _ => string_of_list_ascii (hex_of 8 a ++ hex_of 8 b)
  | _ => EmptyString
  end.

Definition sha256_hex (s : string) : string :=
  string_of_list_ascii (List.concat (map (hex_of 8) (sha256_words (bytes_of_string s)))).
