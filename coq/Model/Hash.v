(* HashName (src/helpers.go): trim leading '$', split on '.', pseudonym per component *)
From Model Require Export Json Sha256.
Open Scope string_scope.

Fixpoint trim_left_dollar (s : string) : string :=
  match s with String "$" r => trim_left_dollar r | _ => s end.

(* strings.Split(s, sep) for a one-byte separator *)
Fixpoint split_on (sep : ascii) (l : list ascii) : list (list ascii) :=
  match l with
  | [] => [[]]
  | ch :: r =>
    if Ascii.eqb ch sep then [] :: split_on sep r
    else match split_on sep r with
         | [] => [[ch]]
         | p :: ps => (ch :: p) :: ps
         end
  end.

Definition split_string (sep : ascii) (s : string) : list string :=
  map string_of_list_ascii (split_on sep (list_ascii_of_string s)).

Definition pseudo (repl part : string) : string := repl ++ "_" ++ sha8_hex part.

Definition hash_name (repl field : string) : string :=
  String.concat "." (map (pseudo repl) (split_string "." (trim_left_dollar field))).
