(* UTF-8 decoding as Go's utf8.DecodeRune does it: Some (code point, size) for a valid
   sequence at the head of the list, None for an invalid byte (RuneError, size 1). *)
From Coq Require Import NArith List Ascii Bool.
Import ListNotations.
Open Scope N_scope. Open Scope bool_scope.

Definition cont (b : N) : bool := (128 <=? b) && (b <=? 191).

Definition decode_rune (l : list N) : option (N * nat) :=
  match l with
  | [] => None
  | b0 :: r =>
    if b0 <? 128 then Some (b0, 1%nat)
    else if (194 <=? b0) && (b0 <=? 223) then
      match r with
      | b1 :: _ => if cont b1 then Some ((b0 - 192) * 64 + (b1 - 128), 2%nat) else None
      | _ => None
      end
    else if (224 <=? b0) && (b0 <=? 239) then
      match r with
      | b1 :: b2 :: _ =>
        let lo := if b0 =? 224 then 160 else 128 in
        let hi := if b0 =? 237 then 159 else 191 in
        if (lo <=? b1) && (b1 <=? hi) && cont b2
        then Some ((b0 - 224) * 4096 + (b1 - 128) * 64 + (b2 - 128), 3%nat) else None
      | _ => None
      end
    else if (240 <=? b0) && (b0 <=? 244) then
      match r with
      | b1 :: b2 :: b3 :: _ =>
        let lo := if b0 =? 240 then 144 else 128 in
        let hi := if b0 =? 244 then 143 else 191 in
        if (lo <=? b1) && (b1 <=? hi) && cont b2 && cont b3
        then Some ((b0 - 240) * 262144 + (b1 - 128) * 4096 + (b2 - 128) * 64 + (b3 - 128), 4%nat) else None
      | _ => None
      end
    else None
  end.

(* utf8.EncodeRune for a valid scalar value (surrogates and > 0x10FFFF become U+FFFD) *)
Definition encode_rune (r : N) : list N :=
  let r := if ((55296 <=? r) && (r <=? 57343)) || (1114111 <? r) then 65533 else r in
  if r <? 128 then [r]
  else if r <? 2048 then [192 + r / 64; 128 + r mod 64]
  else if r <? 65536 then [224 + r / 4096; 128 + (r / 64) mod 64; 128 + r mod 64]
  else [240 + r / 262144; 128 + (r / 4096) mod 64; 128 + (r / 64) mod 64; 128 + r mod 64].
