(* JSON text: the printer (MarshalOrdered + json.Marshal's appendString with HTML escaping)
   and the parser (UnmarshalOrdered on top of json.Decoder.Token with UseNumber), as the
   code uses them. Text is a list of bytes (ascii); string values are Coq strings. *)
From Coq Require Import NArith.
From Model Require Export Json Utf8.
Open Scope char_scope. Open Scope list_scope.

Definition N_of (ch : ascii) : N := N_of_ascii ch.
Definition ch_of (n : N) : ascii := ascii_of_N n.

Definition hexd (n : N) : ascii :=
  match n with
  | 0 => "0" | 1 => "1" | 2 => "2" | 3 => "3" | 4 => "4" | 5 => "5" | 6 => "6" | 7 => "7"
  | 8 => "8" | 9 => "9" | 10 => "a" | 11 => "b" | 12 => "c" | 13 => "d" | 14 => "e" | _ => "f"
  end%N.

(* ---------- printer ---------- *)

Definition esc_ascii (b : N) : list ascii :=
  if (b =? 34)%N then ["\"; """"]
  else if (b =? 92)%N then ["\"; "\"]
  else if (b =? 8)%N then ["\"; "b"]
  else if (b =? 12)%N then ["\"; "f"]
  else if (b =? 10)%N then ["\"; "n"]
  else if (b =? 13)%N then ["\"; "r"]
  else if (b =? 9)%N then ["\"; "t"]
  else if (b <? 32)%N || (b =? 60)%N || (b =? 62)%N || (b =? 38)%N
       then ["\"; "u"; "0"; "0"; hexd (b / 16); hexd (b mod 16)]
  else [ch_of b].

Inductive skipmode := Copy (n : nat) | Drop (n : nat).

Fixpoint esc_bytes (sk : skipmode) (l : list N) : list ascii :=
  match l with
  | [] => []
  | b :: r =>
    match sk with
    | Copy (S k) =>
      (* continuation bytes of a sequence decode_rune accepted; they are >= 128 *)
      if (b <? 128)%N then esc_ascii b ++ esc_bytes (Copy 0) r else ch_of b :: esc_bytes (Copy k) r
    | Drop (S k) => esc_bytes (Drop k) r
    | _ =>
      if (b <? 128)%N then esc_ascii b ++ esc_bytes (Copy 0) r
      else match decode_rune l with
           | None => ["\"; "u"; "f"; "f"; "f"; "d"] ++ esc_bytes (Copy 0) r
           | Some (cp, size) =>
             if (cp =? 8232)%N || (cp =? 8233)%N
             then ["\"; "u"; "2"; "0"; "2"; hexd (cp mod 16)] ++ esc_bytes (Drop (size - 1)) r
             else ch_of b :: esc_bytes (Copy (size - 1)) r
           end
    end
  end.

Definition print_string (s : string) : list ascii :=
  """" :: esc_bytes (Copy 0) (map N_of (list_ascii_of_string s)) ++ [""""].

Fixpoint sep_concat (l : list (list ascii)) : list ascii :=
  match l with
  | [] => []
  | [x] => x
  | x :: r => x ++ "," :: sep_concat r
  end.

Fixpoint print (t : json) : list ascii :=
  match t with
  | JNull => ["n"; "u"; "l"; "l"]
  | JBool true => ["t"; "r"; "u"; "e"]
  | JBool false => ["f"; "a"; "l"; "s"; "e"]
  | JNum lit => list_ascii_of_string lit
  | JStr s => print_string s
  | JArr l => "[" :: sep_concat (map print l) ++ ["]"]
  | JObj l => "{" :: sep_concat (map (fun kv => print_string (fst kv) ++ ":" :: print (snd kv)) l) ++ ["}"]
  end.

(* ---------- parser ---------- *)

Definition is_ws (ch : ascii) : bool :=
  Ascii.eqb ch " " || (N_of ch =? 9)%N || (N_of ch =? 10)%N || (N_of ch =? 13)%N.

Fixpoint skip_ws (l : list ascii) : list ascii :=
  match l with
  | ch :: r => if is_ws ch then skip_ws r else l
  | [] => []
  end.

Definition is_digit (ch : ascii) : bool := (48 <=? N_of ch)%N && (N_of ch <=? 57)%N.

Definition hexval (ch : ascii) : option N :=
  let n := N_of ch in
  if (48 <=? n)%N && (n <=? 57)%N then Some (n - 48)%N
  else if (97 <=? n)%N && (n <=? 102)%N then Some (n - 87)%N
  else if (65 <=? n)%N && (n <=? 70)%N then Some (n - 55)%N
  else None.

(* getu4 on the text after a backslash-u *)
Definition hex4 (l : list ascii) : option (N * list ascii) :=
  match l with
  | a :: b :: c :: d :: r =>
    match hexval a, hexval b, hexval c, hexval d with
    | Some x, Some y, Some z, Some w => Some ((x * 4096 + y * 256 + z * 16 + w)%N, r)
    | _, _, _, _ => None
    end
  | _ => None
  end.

Definition bytes_to_ascii (l : list N) : list ascii := map ch_of l.

(* the text after a given first character, if it is there *)
Definition hd_is (c : ascii) (l : list ascii) : option (list ascii) :=
  match l with
  | x :: r => if Ascii.eqb x c then Some r else None
  | [] => None
  end.

(* string body after the opening quote; acc is reversed output *)
Fixpoint parse_str (fuel : nat) (l : list ascii) (acc : list ascii) : option (string * list ascii) :=
  match fuel with
  | O => None
  | S f =>
    match l with
    | [] => None
    | ch :: r =>
      let n := N_of ch in
      if (n =? 34)%N then Some (string_of_list_ascii (rev' acc), r)
      else if (n <? 32)%N then None
      else if (n =? 92)%N then
        match r with
        | e :: r2 =>
          let simple (x : N) := parse_str f r2 (ch_of x :: acc) in
          if Ascii.eqb e """" then simple 34%N
          else if Ascii.eqb e "\" then simple 92%N
          else if Ascii.eqb e "/" then simple 47%N
          else if Ascii.eqb e "b" then simple 8%N
          else if Ascii.eqb e "f" then simple 12%N
          else if Ascii.eqb e "n" then simple 10%N
          else if Ascii.eqb e "r" then simple 13%N
          else if Ascii.eqb e "t" then simple 9%N
          else if Ascii.eqb e "u" then
            match hex4 r2 with
            | None => None
            | Some (u1, r3) =>
              if (55296 <=? u1)%N && (u1 <? 57344)%N then
                (* surrogate: look for a following low surrogate escape *)
                let lone := parse_str f r3 (rev (bytes_to_ascii (encode_rune 65533)) ++ acc) in
                match hd_is "\" r3 with
                | Some r3' =>
                  match hd_is "u" r3' with
                  | Some r4 =>
                    match hex4 r4 with
                    | Some (u2, r5) =>
                      if (u1 <? 56320)%N && (56320 <=? u2)%N && (u2 <? 57344)%N then
                        let cp := ((u1 - 55296) * 1024 + (u2 - 56320) + 65536)%N in
                        parse_str f r5 (rev (bytes_to_ascii (encode_rune cp)) ++ acc)
                      else lone
                    | None => lone
                    end
                  | None => lone
                  end
                | None => lone
                end
              else parse_str f r3 (rev (bytes_to_ascii (encode_rune u1)) ++ acc)
            end
          else None
        | [] => None
        end
      else if (n <? 128)%N then parse_str f r (ch :: acc)
      else
        match decode_rune (map N_of (firstn 4 l)) with
        | None => parse_str f r (rev (bytes_to_ascii (encode_rune 65533)) ++ acc)
        | Some (_, size) =>
          (* copy the whole sequence *)
          parse_str f (skipn size l) (rev (firstn size l) ++ acc)
        end
    end
  end.

Fixpoint take_digits (l : list ascii) : list ascii * list ascii :=
  match l with
  | ch :: r => if is_digit ch then let (d, rest) := take_digits r in (ch :: d, rest) else ([], l)
  | [] => ([], [])
  end.

(* number literal: optional minus, 0 or a non-zero digit followed by digits, optional fraction,
   optional exponent; the longest match, an error if a part is incomplete. Each part returns the
   text it consumed and the rest. *)
Definition num_sign (l : list ascii) : list ascii * list ascii :=
  match l with "-" :: r => (["-"], r) | _ => ([], l) end.

Definition num_int (l : list ascii) : option (list ascii * list ascii) :=
  match l with
  | [] => None
  | d :: r => if negb (is_digit d) then None
              else Some (if Ascii.eqb d "0" then ([d], r) else take_digits l)
  end.

Definition num_frac (l : list ascii) : option (list ascii * list ascii) :=
  match l with
  | "." :: r2 => let (ds, l3) := take_digits r2 in
                 match ds with [] => None | _ => Some ("." :: ds, l3) end
  | _ => Some ([], l)
  end.

Definition exp_sign (l : list ascii) : list ascii * list ascii :=
  match l with
  | "+" :: r' => (["+"], r')
  | "-" :: r' => (["-"], r')
  | _ => ([], l)
  end.

Definition num_exp (l : list ascii) : option (list ascii * list ascii) :=
  match l with
  | e :: r3 =>
    if Ascii.eqb e "e" || Ascii.eqb e "E" then
      let (sg, r4) := exp_sign r3 in
      let (ds, l4) := take_digits r4 in
      match ds with [] => None | _ => Some (e :: sg ++ ds, l4) end
    else Some ([], l)
  | [] => Some ([], l)
  end.

Definition parse_num (l : list ascii) : option (list ascii * list ascii) :=
  let (sign, l1) := num_sign l in
  match num_int l1 with
  | None => None
  | Some (int_part, l2) =>
    match num_frac l2 with
    | None => None
    | Some (frac_part, l3) =>
      match num_exp l3 with
      | None => None
      | Some (exp_part, l4) => Some (sign ++ int_part ++ frac_part ++ exp_part, l4)
      end
    end
  end.

Inductive after := AClose | AMore.

Definition lit_true : list ascii := ["t"; "r"; "u"; "e"].
Definition lit_false : list ascii := ["f"; "a"; "l"; "s"; "e"].
Definition lit_null : list ascii := ["n"; "u"; "l"; "l"].

Fixpoint strip_prefix (p l : list ascii) : option (list ascii) :=
  match p, l with
  | [], _ => Some l
  | a :: p', b :: l' => if Ascii.eqb a b then strip_prefix p' l' else None
  | _, [] => None
  end.

Definition parse_scalar (l : list ascii) : option (json * list ascii) :=
  match strip_prefix lit_true l with
  | Some r => Some (JBool true, r)
  | None =>
    match strip_prefix lit_false l with
    | Some r => Some (JBool false, r)
    | None =>
      match strip_prefix lit_null l with
      | Some r => Some (JNull, r)
      | None => match parse_num l with
                | Some (lit, r) => Some (JNum (string_of_list_ascii lit), r)
                | None => None
                end
      end
    end
  end.

Fixpoint parse_value (fuel : nat) (l : list ascii) : option (json * list ascii) :=
  match fuel with
  | O => None
  | S f =>
    match skip_ws l with
    | [] => None
    | ch :: r =>
      if Ascii.eqb ch "{" then
        match hd_is "}" (skip_ws r) with
        | Some r' => Some (JObj [], r')
        | None => parse_members f (skip_ws r) []
        end
      else if Ascii.eqb ch "[" then
        match hd_is "]" (skip_ws r) with
        | Some r' => Some (JArr [], r')
        | None => parse_elems f (skip_ws r) []
        end
      else if Ascii.eqb ch """" then
        match parse_str (S (List.length r)) r [] with
        | Some (s, r') => Some (JStr s, r')
        | None => None
        end
      else parse_scalar (ch :: r)
    end
  end
(* members of an object, positioned at the first non-space byte of a key; acc is the map built so far *)
with parse_members (fuel : nat) (l : list ascii) (acc : list (string * json)) : option (json * list ascii) :=
  match fuel with
  | O => None
  | S f =>
    match hd_is """" l with
    | Some r =>
      match parse_str (S (List.length r)) r [] with
      | None => None
      | Some (k, r1) =>
        match hd_is ":" (skip_ws r1) with
        | Some r2 =>
          match parse_value f r2 with
          | None => None
          | Some (v, r3) =>
            let acc' := oset acc k v in
            match hd_is "," (skip_ws r3) with
            | Some r4 => parse_members f (skip_ws r4) acc'
            | None =>
              match hd_is "}" (skip_ws r3) with
              | Some r4 => Some (JObj acc', r4)
              | None => None
              end
            end
          end
        | None => None
        end
      end
    | None => None
    end
  end
(* elements of an array; acc is reversed *)
with parse_elems (fuel : nat) (l : list ascii) (acc : list json) : option (json * list ascii) :=
  match fuel with
  | O => None
  | S f =>
    match hd_is "]" l, hd_is "}" l with
    | None, None =>
      match parse_value f l with
      | None => None
      | Some (v, r1) =>
        match hd_is "," (skip_ws r1) with
        | Some r2 => parse_elems f (skip_ws r2) (v :: acc)
        | None =>
          match hd_is "]" (skip_ws r1) with
          | Some r2 => Some (JArr (rev' (v :: acc)), r2)
          | None => None
          end
        end
      end
    | _, _ => None
    end
  end.

(* json.Marshal refuses a json.Number that is not a valid number literal; MarshalOrdered then fails
   and the line is skipped. Literals produced by the parser are always valid. *)
Definition valid_number (lit : string) : bool :=
  match parse_num (list_ascii_of_string lit) with Some (_, []) => true | _ => false end.

Fixpoint printable (t : json) : bool :=
  match t with
  | JNum lit => valid_number lit
  | JArr l => forallb printable l
  | JObj l => forallb (fun kv => printable (snd kv)) l
  | _ => true
  end.

(* UnmarshalOrdered: the first JSON value of the line must be an object; what follows it is ignored *)
Definition parse_line (l : list ascii) : option json :=
  match parse_value (S (List.length l)) l with
  | Some (JObj m, _) => Some (JObj m)
  | _ => None
  end.
