(* RedactMongoLog, redactCommand, redactNamespace (src/anonymizer.go:46-221) and the
   per-line pipeline parse -> redact -> print. *)
From Model Require Export Walker Hash Email PlanSummary JsonText.
Open Scope string_scope.

Section Line.
Variable tb : tables.
Variable cs : consts.
Variable c : cfg.

Definition hn : string -> string := hash_name (repl c).

Definition W := walk tb cs c is_email hn.

(* cmd.Set(key, f v) when the key is present and v has the expected kind *)
Definition upd (cmd : list (string * json)) (k : string) (f : json -> option json) : list (string * json) :=
  match oget cmd k with
  | Some v => match f v with Some v' => oset cmd k v' | None => cmd end
  | None => cmd
  end.

Definition q_obj (rfn : bool) (v : json) : option json :=
  match v with JObj _ => Some (W (MQ rfn false MNil []) v) | _ => None end.
Definition a_arr (rfn : bool) (v : json) : option json :=
  match v with JArr _ => Some (W (MA "" rfn false false []) v) | _ => None end.
Definition q_or_a (rfn : bool) (v : json) : option json :=
  match v with JObj _ => q_obj rfn v | JArr _ => a_arr rfn v | _ => None end.
Definition pipe (rfn : bool) (v : json) : option json :=
  match v with
  | JArr l => Some (JArr (map (fun st => W (MP rfn [] (is_in_search_stage tb st)) st) l))
  | _ => None
  end.

Definition redact_command (rfn : bool) (cmd : list (string * json)) : list (string * json) :=
  let cmd := upd cmd "query" (q_obj rfn) in
  let cmd := upd cmd "filter" (q_obj rfn) in
  let cmd := upd cmd "sort" (q_obj rfn) in
  let cmd := upd cmd "update" (q_or_a rfn) in
  let cmd := upd cmd "updates" (a_arr rfn) in
  let cmd := upd cmd "deletes" (a_arr rfn) in
  let cmd := upd cmd "q" (q_obj rfn) in
  let cmd := upd cmd "u" (q_or_a rfn) in
  let cmd := match oget cmd "insert" with Some _ => upd cmd "documents" (a_arr rfn) | None => cmd end in
  upd cmd "pipeline" (pipe rfn).

Definition ns_fields : list string :=
  ["ns"; "aggregate"; "insert"; "find"; "update"; "collection"; "delete"; "$db"; "count"; "findAndModify";
   "findOneAndDelete"; "replace"; "findOneAndReplace"; "findOneAndUpdate"; "getIndexes"; "countDocuments"].

Definition hash_str (v : json) : option json := match v with JStr s => Some (JStr (hn s)) | _ => None end.

Definition redact_namespace (cmd : list (string * json)) : list (string * json) :=
  fold_left (fun cmd f => upd cmd f hash_str) ns_fields cmd.

Definition do_command (rfn : bool) (attr : list (string * json)) (k : string) : list (string * json) :=
  upd attr k (fun v => match v with
                       | JObj cmd => let cmd := redact_command rfn cmd in
                                     Some (JObj (if nss c then redact_namespace cmd else cmd))
                       | _ => None
                       end).

Definition gate (entry : list (string * json)) : bool :=
  let cv := str_of (oget entry "c") in
  String.eqb cv "COMMAND" || String.eqb cv "QUERY" || String.eqb cv "WRITE" || String.eqb (str_of (oget entry "msg")) "Slow query".

Definition eager_on (attr : list (string * json)) : bool :=
  existsb (fun p => String.prefix p (str_of (oget attr "ns"))) (eager c).

Definition redact_attr (g : bool) (attr : list (string * json)) : list (string * json) :=
  let attr :=
    if g then
      let rfn := eager_on attr in
      let attr := do_command rfn attr "originatingCommand" in
      let attr := do_command rfn attr "cmd" in
      let attr := do_command rfn attr "command" in
      if rfn then upd attr "planSummary" (fun v => match v with JStr s => Some (JStr (redact_plan_summary (repl c) s)) | _ => None end)
      else attr
    else attr in
  if nss c then upd attr "ns" hash_str else attr.

Definition redact_ip (attr : list (string * json)) : list (string * json) :=
  upd attr "remote" (fun v => match v with JStr _ => Some (JStr "255.255.255.255:65535") | _ => None end).

Definition redact_entry (entry : list (string * json)) : list (string * json) :=
  let entry := if ips c then upd entry "attr" (fun a => match a with JObj m => Some (JObj (redact_ip m)) | _ => None end) else entry in
  upd entry "attr" (fun a => match a with JObj m => Some (JObj (redact_attr (gate entry) m)) | _ => None end).

Definition redact_tree (t : json) : json :=
  match t with JObj entry => JObj (redact_entry entry) | _ => t end.

Inductive outcome := Out (o : list ascii) | Skip.

Definition redact_line (l : list ascii) : outcome :=
  match parse_line l with
  | Some t => Out (print (redact_tree t))
  | None => Skip
  end.

End Line.
