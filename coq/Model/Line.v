(* RedactMongoLog, redactCommand, redactNamespace (src/anonymizer.go:46-221) and the
   per-line pipeline parse -> redact -> print.

   The Go code updates an ordered map in place with a sequence of Get / Set calls on
   distinct, fixed keys. On a map (no duplicate keys: the parser builds maps with Set) such a
   sequence is one pass that replaces the value of each dispatched key where it stands; the
   model is written as that one pass. *)
From Model Require Export Walker Hash Email PlanSummary JsonText.
From Gen Require Import Probed.
Open Scope string_scope.

Section Line.
Variable tb : tables.
Variable cs : consts.
Variable c : cfg.
Variable A : actions.

Definition W := walk tb cs c is_email A.

Definition q_obj (rfn : bool) (v : json) : json :=
  match v with JObj _ => W (MQ rfn false MNil []) v | _ => v end.
Definition a_arr (rfn : bool) (v : json) : json :=
  match v with JArr _ => W (MA "" rfn false false []) v | _ => v end.
Definition q_or_a (rfn : bool) (v : json) : json :=
  match v with JObj _ => q_obj rfn v | JArr _ => a_arr rfn v | _ => v end.
Definition pipe (rfn : bool) (v : json) : json :=
  match v with
  | JArr l => JArr (map (fun st => W (MP rfn [] (is_in_search_stage tb st)) st) l)
  | _ => v
  end.

Definition key_in (k : string) (ks : list string) : bool := existsb (String.eqb k) ks.

(* redactCommand: what happens to the value of key k of a command document *)
Definition cmd_member (rfn is_insert : bool) (k : string) (v : json) : json :=
  if key_in k ["query"; "filter"; "sort"; "q"] then q_obj rfn v
  else if key_in k ["update"; "u"] then q_or_a rfn v
  else if key_in k ["updates"; "deletes"] then a_arr rfn v
  else if String.eqb k "documents" then (if is_insert then a_arr rfn v else v)
  else if String.eqb k "pipeline" then pipe rfn v
  else v.

(* redactNamespace's list of member names is not written down here: it is measured on the compiled program on every run
   (Gen/Probed.v: one probe line per string literal of the sources); Spec/TablesOK.v holds the obligations on it *)
Definition ns_fields : list string := ns_fields_dumped.

Definition hash_str (v : json) : json := match v with JStr s => JStr (a_hash A s) | _ => v end.

(* redactNamespace *)
Definition ns_member (k : string) (v : json) : json := if key_in k ns_fields then hash_str v else v.

Definition has_key (l : list (string * json)) (k : string) : bool :=
  match oget l k with Some _ => true | None => false end.

Definition redact_command (rfn : bool) (cmd : list (string * json)) : list (string * json) :=
  let ins := has_key cmd "insert" in
  map (fun kv => let v1 := cmd_member rfn ins (fst kv) (snd kv) in
                 (fst kv, if nss c then ns_member (fst kv) v1 else v1)) cmd.

Definition do_command (rfn : bool) (v : json) : json :=
  match v with JObj cmd => JObj (redact_command rfn cmd) | _ => v end.

Definition gate (entry : list (string * json)) : bool :=
  let cv := str_of (oget entry "c") in
  String.eqb cv "COMMAND" || String.eqb cv "QUERY" || String.eqb cv "WRITE" || String.eqb (str_of (oget entry "msg")) "Slow query".

Definition eager_on (attr : list (string * json)) : bool :=
  existsb (fun p => String.prefix p (str_of (oget attr "ns"))) (eager c).

Definition plan_value (v : json) : json :=
  match v with JStr s => JStr (redact_plan_summary_with (a_hash A) s) | _ => v end.

Definition ip_value (v : json) : json := match v with JStr _ => JStr ip_placeholder | _ => v end.

(* what happens to the value of key k of attr; g = the line gate, rfn = field-name mode for this line *)
Definition attr_member (g rfn : bool) (k : string) (v : json) : json :=
  let v := if ips c && String.eqb k "remote" then ip_value v else v in
  let v := if g && key_in k ["originatingCommand"; "cmd"; "command"] then do_command rfn v else v in
  let v := if g && rfn && String.eqb k "planSummary" then plan_value v else v in
  if nss c && String.eqb k "ns" then hash_str v else v.

Definition redact_attr (g : bool) (attr : list (string * json)) : list (string * json) :=
  let rfn := eager_on attr in
  map (fun kv => (fst kv, attr_member g rfn (fst kv) (snd kv))) attr.

Definition redact_entry (entry : list (string * json)) : list (string * json) :=
  let g := gate entry in
  map (fun kv => (fst kv, if String.eqb (fst kv) "attr"
                          then match snd kv with JObj a => JObj (redact_attr g a) | x => x end
                          else snd kv)) entry.

Definition redact_tree (t : json) : json :=
  match t with JObj entry => JObj (redact_entry entry) | _ => t end.

End Line.

Definition real_actions (cs : consts) (c : cfg) (enc : encf) : actions :=
  {| a_str := subst_with enc; a_num := fun _ => c_num cs; a_bool := fun _ => c_bool cs;
     a_hash := hash_name (repl c); a_generic := repl c |}.

Inductive outcome := Out (o : list ascii) | Skip.

Definition redact_line (tb : tables) (cs : consts) (c : cfg) (enc : encf) (l : list ascii) : outcome :=
  match parse_line l with
  | Some t => let t' := redact_tree tb cs c (real_actions cs c enc) t in
              if printable t' then Out (print t') else Skip
  | None => Skip
  end.
