(* JSON trees as the tool sees them: ordered objects (association lists with the
   Set semantics of elliotchance/orderedmap), numbers kept as their literal text. *)
From Coq Require Export List String Ascii Bool Arith.
Export ListNotations.
Open Scope string_scope.

Inductive json :=
| JNull
| JBool (b : bool)
| JNum (lit : string)
| JStr (s : string)
| JArr (l : list json)
| JObj (l : list (string * json)).

(* orderedmap.Set: replace the value at the first occurrence of the key, else append *)
Fixpoint oset {A} (l : list (string * A)) (k : string) (v : A) : list (string * A) :=
  match l with
  | [] => [(k, v)]
  | (k', v') :: r => if String.eqb k' k then (k', v) :: r else (k', v') :: oset r k v
  end.

Fixpoint oget {A} (l : list (string * A)) (k : string) : option A :=
  match l with
  | [] => None
  | (k', v) :: r => if String.eqb k' k then Some v else oget r k
  end.

(* rebuilding an object member by member with Set, as every walker does *)
Definition build {A} (l : list (string * A)) : list (string * A) :=
  fold_left (fun acc kv => oset acc (fst kv) (snd kv)) l [].

Definition obj_get (t : json) (k : string) : option json :=
  match t with JObj l => oget l k | _ => None end.

Definition str_of (t : option json) : string :=
  match t with Some (JStr s) => s | _ => "" end.

(* shape: keys, order, array lengths, leaf kinds *)
Inductive shape := SNull | SBool | SNum | SStr | SArr (l : list shape) | SObj (l : list (string * shape)).

Fixpoint shape_of (t : json) : shape :=
  match t with
  | JNull => SNull | JBool _ => SBool | JNum _ => SNum | JStr _ => SStr
  | JArr l => SArr (map shape_of l)
  | JObj l => SObj (map (fun kv => (fst kv, shape_of (snd kv))) l)
  end.

(* index paths: i-th member of an object / i-th element of an array *)
Fixpoint jget (t : json) (p : list nat) : option json :=
  match p with
  | [] => Some t
  | i :: r =>
    match t with
    | JArr l => match nth_error l i with Some c => jget c r | None => None end
    | JObj l => match nth_error l i with Some kv => jget (snd kv) r | None => None end
    | _ => None
    end
  end.

(* no duplicate sibling keys anywhere *)
Fixpoint nodup_keys (t : json) : Prop :=
  match t with
  | JArr l => (fix go (l : list json) : Prop := match l with [] => True | x :: r => nodup_keys x /\ go r end) l
  | JObj l => NoDup (map fst l) /\
              (fix go (l : list (string * json)) : Prop := match l with [] => True | kv :: r => nodup_keys (snd kv) /\ go r end) l
  | _ => True
  end.

Definition starts_with_dollar (s : string) : bool :=
  match s with String "$" _ => true | _ => false end.
