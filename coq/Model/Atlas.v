(* Atlas mode (src/atlas.go, the Atlas branch of src/main.go, GetStartAndEndDates in src/reader.go):
   the orchestration - which requests are made in which order, what is kept in the temporary
   directory, what happens on each failure - with the server, gunzip and the redaction of one
   file as explicit parameters. HTTP, TLS, the digest library and connstring are not modelled. *)
From Coq Require Import ZArith List String.
Import ListNotations.
Open Scope list_scope.

Definition bytes := list Ascii.ascii.

(* what the (fake or real) endpoint answers to the decisive request of a round *)
Inductive hresp :=
| HStatus (code : nat) (body : bytes)   (* complete response *)
| HCut (sent : nat) (body : bytes)      (* 200, then the connection is cut after [sent] body bytes *)
| HReset.                               (* connection error before any response *)

Record world := {
  w_challenge : bool;                 (* unauthenticated requests are answered 401 + digest challenge *)
  w_cluster : hresp;                  (* answer to the cluster-description request *)
  w_hosts : option (list string);     (* hosts of connectionStrings.standard in that body, ports stripped (library + repo code) *)
  w_logs : list hresp                 (* answer to the log download of the i-th host *)
}.

Inductive req :=
| RCluster (auth : bool)
| RLog (host : string) (auth : bool) (start_date end_date : Z).

Definition default_duration : Z := 604800.

(* GetStartAndEndDates *)
Definition window (s e now : Z) : Z * Z :=
  if (Z.eqb s 0 && Z.eqb e 0)%bool then ((now - default_duration)%Z, now)
  else let s' := if Z.eqb s 0 then (e - default_duration)%Z else s in
       let e' := if Z.eqb e 0 then (s' + default_duration)%Z else e in
       (s', e').

(* one logical request through the digest transport: unauthenticated first; after a challenge once more with Authorization *)
Definition round (w : world) (mk : bool -> req) : list req :=
  if w_challenge w then [mk false; mk true] else [mk false].

Inductive dl_result := DlOk | DlFail.

(* the per-host loop of DownloadClusterLogs; tmp = files currently in the temporary directory *)
Fixpoint download_hosts (w : world) (s e : Z) (hosts : list string) (answers : list hresp) (idx : nat)
         (tmp : list (nat * bytes)) (trace : list req) : list req * list (nat * bytes) * dl_result :=
  match hosts with
  | [] => (trace, tmp, DlOk)
  | h :: hs =>
    let trace' := trace ++ round w (fun a => RLog h a s e) in
    match answers with
    | HStatus 200 body :: rest => download_hosts w s e hs rest (S idx) (tmp ++ [(idx, body)]) trace'
    | HCut sent body :: _ =>
      (* temp file created, partially written, removed again; then the files of earlier hosts are deleted *)
      (trace', [], DlFail)
    | _ => (trace', [], DlFail)   (* non-200 status, connection error, or no answer: earlier files deleted *)
    end
  end.

Definition download (w : world) (s e : Z) : list req * list (nat * bytes) * dl_result :=
  let t0 := round w RCluster in
  match w_cluster w with
  | HStatus 200 _ =>
    match w_hosts w with
    | Some hosts => download_hosts w s e hosts (w_logs w) 0 [] t0
    | None => (t0, [], DlFail)
    end
  | _ => (t0, [], DlFail)
  end.

Section Cli.
Variable gunzip : bytes -> option bytes.
Variable redact : bytes -> option bytes.      (* processMongoLogStream on the decompressed log: None = error *)
Variable out_writable : nat -> bool.          (* can <outputFile>.<i> be created *)

Inductive status := Exit0 | Exit1.

(* the per-file loop of main(): out.i := redaction of file i; any failure cleans up and exits 1 *)
Fixpoint per_file (files : list (nat * bytes)) (outs : list (nat * bytes)) : list (nat * bytes) * status :=
  match files with
  | [] => (outs, Exit0)
  | (i, raw) :: rest =>
    if negb (out_writable i) then (outs, Exit1) else
    match gunzip raw with
    | None => (outs ++ [(i, [])], Exit1)
    | Some data =>
      match redact data with
      | None => (outs ++ [(i, [])], Exit1)     (* partial output is C08's business; here only that the run fails *)
      | Some o => per_file rest (outs ++ [(i, o)])
      end
    end
  end.

Record run_result := { r_trace : list req; r_outs : list (nat * bytes); r_tmp_left : list (nat * bytes); r_status : status }.

(* the whole Atlas run; whatever happens, the deferred / explicit cleanup removes every downloaded file *)
Definition atlas_run (w : world) (s e now : Z) : run_result :=
  let se := window s e now in
  match download w (fst se) (snd se) with
  | (trace, tmp, DlFail) => {| r_trace := trace; r_outs := []; r_tmp_left := tmp; r_status := Exit1 |}
  | (trace, tmp, DlOk) =>
    let (outs, st) := per_file tmp [] in
    {| r_trace := trace; r_outs := outs; r_tmp_left := []; r_status := st |}
  end.

End Cli.

(* ---------- the data flow of the credentials (C20), as atoms ---------- *)
Inductive atom := APub | APriv | AProj | ACluster | AHost (i : nat) | ANum | ADigestResponse | AServerText.

(* what each artefact of a run is made of *)
Definition request_atoms (auth : bool) (is_log : bool) (i : nat) : list atom :=
  [AProj] ++ (if is_log then [AHost i; ANum; ANum] else [ACluster]) ++ (if auth then [APub; ADigestResponse] else []).

(* an error message quotes the status, the server's body and the URL of the request *)
Definition error_atoms (is_log : bool) (i : nat) : list atom :=
  [ANum; AServerText; AProj] ++ (if is_log then [AHost i; ANum; ANum] else [ACluster]).

Definition progress_atoms (i : nat) : list atom := [AHost i].

Definition run_atoms (challenge : bool) (nhosts : nat) (fail_at : option nat) : list atom :=
  request_atoms false false 0 ++ (if challenge then request_atoms true false 0 else []) ++
  flat_map (fun i => progress_atoms i ++ request_atoms false true i ++ (if challenge then request_atoms true true i else [])) (seq 0 nhosts) ++
  match fail_at with Some i => error_atoms true i | None => [] end.
