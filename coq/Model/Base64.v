(* base64.StdEncoding: EncodeToString and DecodeString (padded, CR/LF ignored, non-strict) *)
From Coq Require Import NArith.
From Model Require Export Json.
Open Scope char_scope. Open Scope list_scope.

Definition b64_char (n : N) : ascii :=
  (if n <? 26 then ascii_of_N (65 + n)
   else if n <? 52 then ascii_of_N (97 + (n - 26))
   else if n <? 62 then ascii_of_N (48 + (n - 52))
   else if n =? 62 then "+" else "/")%N.

Definition b64_val (ch : ascii) : option N :=
  let n := N_of_ascii ch in
  (if (65 <=? n) && (n <=? 90) then Some (n - 65)
   else if (97 <=? n) && (n <=? 122) then Some (n - 97 + 26)
   else if (48 <=? n) && (n <=? 57) then Some (n - 48 + 52)
   else if n =? 43 then Some 62
   else if n =? 47 then Some 63
   else None)%N.

Fixpoint b64_encode (l : list N) : list ascii :=
  match l with
  | a :: b :: c :: r =>
    b64_char (a / 4) :: b64_char ((a mod 4) * 16 + b / 16) :: b64_char ((b mod 16) * 4 + c / 64) :: b64_char (c mod 64)
    :: b64_encode r
  | [a; b] => [b64_char (a / 4); b64_char ((a mod 4) * 16 + b / 16); b64_char ((b mod 16) * 4); "="]
  | [a] => [b64_char (a / 4); b64_char ((a mod 4) * 16); "="; "="]
  | [] => []
  end%N.

Definition pad : ascii := "=".

Fixpoint b64_groups (l : list ascii) : option (list N) :=
  match l with
  | [] => Some []
  | a :: b :: c :: d :: r =>
    if Ascii.eqb d pad then
      match r with
      | [] =>
        if Ascii.eqb c pad then
          match b64_val a, b64_val b with
          | Some x, Some y => Some [x * 4 + y / 16]
          | _, _ => None
          end
        else
          match b64_val a, b64_val b, b64_val c with
          | Some x, Some y, Some z => Some [x * 4 + y / 16; (y mod 16) * 16 + z / 4]
          | _, _, _ => None
          end
      | _ => None
      end
    else
      match b64_val a, b64_val b, b64_val c, b64_val d, b64_groups r with
      | Some x, Some y, Some z, Some w, Some rest =>
        Some ((x * 4 + y / 16) :: ((y mod 16) * 16 + z / 4) :: ((z mod 4) * 64 + w) :: rest)
      | _, _, _, _, _ => None
      end
  | _ => None
  end%N.

Definition is_crlf (ch : ascii) : bool := (N_of_ascii ch =? 10)%N || (N_of_ascii ch =? 13)%N.

Definition b64_decode (l : list ascii) : option (list N) :=
  b64_groups (filter (fun ch => negb (is_crlf ch)) l).
