(* IsEmail (src/helpers.go:18,90): hand-written matcher for the fixed regular expression
   ^[a-zA-Z0-9.!#$%&'*+/=?^_`{|}~-]+@label(\.label)*$, label = alnum([alnum-]{0,61}alnum)?,
   with the 3..254 length window. Validated against the Go function on every run. *)
From Model Require Export Json Hash.
Open Scope char_scope.

Definition is_alnum (ch : ascii) : bool :=
  let n := nat_of_ascii ch in
  ((48 <=? n) && (n <=? 57) || (65 <=? n) && (n <=? 90) || (97 <=? n) && (n <=? 122))%nat.

Definition is_local_char (ch : ascii) : bool :=
  is_alnum ch ||
  existsb (Ascii.eqb ch) ["."; "!"; "#"; "$"; "%"; "&"; "'"; "*"; "+"; "/"; "="; "?"; "^"; "_"; "`"; "{"; "|"; "}"; "~"; "-"].

Definition is_label (l : list ascii) : bool :=
  match l with
  | [] => false
  | first :: _ =>
    (List.length l <=? 63)%nat && is_alnum first && is_alnum (last l first) &&
    forallb (fun ch => is_alnum ch || Ascii.eqb ch "-") l
  end.

Fixpoint split_at_first (sep : ascii) (l : list ascii) : option (list ascii * list ascii) :=
  match l with
  | [] => None
  | ch :: r => if Ascii.eqb ch sep then Some ([], r)
               else match split_at_first sep r with Some (a, b) => Some (ch :: a, b) | None => None end
  end.

Definition is_email (s : string) : bool :=
  let l := list_ascii_of_string s in
  let n := List.length l in
  if ((n <? 3) || (254 <? n))%nat then false else
  match split_at_first "@" l with
  | None => false
  | Some (loc, dom) =>
    (match loc with [] => false | _ => true end) && forallb is_local_char loc &&
    forallb is_label (split_on "." dom)
  end.
