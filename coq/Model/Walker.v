(* The three walkers of src/anonymizer.go (redactPipelineStage, redactQueryValues,
   redactArrayValuesWithKey) and the scalar step (redactScalarValue, redactString),
   transcribed as ONE structural Fixpoint over json with a mode argument.
   Key paths handed to the scalar step are non-empty by construction (init ++ [last]),
   which is what the Go code's keyPath[len(keyPath)-1] relies on. *)
From Model Require Export Tables.
From Gen Require Import Probed.

(* not written down here: measured on the compiled program on every run (Gen/Probed.v) *)
Definition ip_placeholder : string := ip_placeholder_dumped.

Record consts := {
  c_isodate : string;  (* RedactedISODate *)
  c_oid : string;      (* RedactedObjectId *)
  c_uuid : string;     (* RedactedUUID *)
  c_num : string;      (* literal printed for RedactedNumber *)
  c_bool : bool;       (* RedactedBoolean *)
  c_email : string     (* "redacted@redacted.com" *)
}.

Record cfg := {
  repl : string;                         (* --replacement *)
  nums : bool; bools : bool; ips : bool; nss : bool;
  eager : list string;                   (* --redactFieldNames *)
  re : option (string -> bool)           (* --redactFieldsRegexp as a predicate on names *)
}.

(* Encryption is not part of cfg: the walkers never look at it. It only determines the string
   action (redactString): Some f iff shouldEncrypt && key <> nil; f s = base64 ciphertext,
   None = Encrypt returned an error. *)
Definition encf := option (string -> option string).

(* What is done to a leaf is separated from the decision to do it: the walkers decide a
   verdict (from tables, key path and flags) and the configured actions carry it out. *)
Inductive verdict := VKeep | VStr (ph : string) | VNum | VBool | VHash | VGeneric | VConst (k : string).

Record actions := {
  a_str : string -> string -> string;   (* original string, class placeholder -> emitted string (redactString) *)
  a_num : string -> string;             (* number literal -> emitted literal *)
  a_bool : bool -> bool;
  a_hash : string -> string;            (* HashName *)
  a_generic : string                    (* what a non-leaf handed to the scalar step becomes (never reached) *)
}.

Definition apply_verdict (A : actions) (d : verdict) (v : json) : json :=
  match d, v with
  | VStr ph, JStr s => JStr (a_str A s ph)
  | VNum, JNum n => JNum (a_num A n)
  | VBool, JBool b => JBool (a_bool A b)
  | VHash, JStr s => JStr (a_hash A s)
  | VGeneric, _ => JStr (a_generic A)
  | VConst k, JStr _ => JStr k
  | _, _ => v
  end.

(* redactString *)
Definition subst_with (enc : option (string -> option string)) (s ph : string) : string :=
  match enc with
  | Some f => match f s with Some ct => ct | None => ph end
  | None => ph
  end.

Inductive mode :=
| MP (rfn : bool) (kp : list string) (search : bool)
| MQ (rfn : bool) (search : bool) (parent : meta) (kp : list string)
| MA (pk : string) (rfn search sel : bool) (kp : list string).

Section Walk.
Variable tb : tables.
Variable cs : consts.
Variable c : cfg.
Variable is_email : string -> bool.
Variable A : actions.

Definition hn : string -> string := a_hash A.

Definition re_matches_any (kp : list string) : bool :=
  match re c with Some r => existsb r kp | None => false end.

Definition trim_one_dollar (s : string) : string :=
  match s with String "$" r => r | _ => s end.

(* isRedactableFieldPatternInArray *)
Definition sel_of (l : list json) : bool :=
  match re c with
  | None => false
  | Some r => existsb (fun x => match x with JStr s => starts_with_dollar s && r (trim_one_dollar s) | _ => false end) l
  end.

Definition last_or_empty (l : list string) : string := last l "".

(* redactScalarValue on key path init ++ [lst]: the decision *)
Definition scalar_verdict (init : list string) (lst : string) (v : json) (search sel : bool) : verdict :=
  let gp := last_or_empty init in
  let exempt := match get_op tb init lst search with Some m => is_ty m Exempt | None => false end in
  if exempt then VKeep else
  let return_plain := negb search && (match re c with Some _ => true | None => false end)
                      && negb sel && negb (re_matches_any (init ++ [lst])) in
  if return_plain then VKeep else
  let by_type :=
    match v with
    | JNull => VKeep
    | JStr s => if is_email s then VStr (c_email cs) else VStr (repl c)
    | JNum n => if nums c then VNum else VKeep
    | JBool b => if bools c then VBool else VKeep
    | _ => VGeneric
    end in
  if String.eqb lst "$date" then match v with JStr s => VStr (c_isodate cs) | _ => by_type end
  else if String.eqb lst "$oid" then match v with JStr s => VStr (c_oid cs) | _ => by_type end
  else if String.eqb lst "base64" && String.eqb gp "$binary" then match v with JStr s => VStr (c_uuid cs) | _ => by_type end
  else if String.eqb lst "subType" && String.eqb gp "$binary" then VKeep
  else by_type.

Definition scalar (init : list string) (lst : string) (v : json) (search sel : bool) : json :=
  apply_verdict A (scalar_verdict init lst v search sel) v.

Definition core_has (s : string) : bool := match oget (Core tb) s with Some _ => true | None => false end.

(* a '$'-prefixed string met by the query / array walkers *)
Definition dollar_string (rfn : bool) (s : string) : json :=
  if rfn && negb (core_has s) then JStr (hn s) else JStr s.

(* redactNamespaceValue *)
Definition ns_value (v : json) : json :=
  match v with
  | JStr s => JStr (hn s)
  | JObj l => JObj (build (map (fun kv => match snd kv with JStr s => (fst kv, JStr (hn s)) | x => (fst kv, x) end) l))
  | _ => v
  end.

Definition is_op_name (s : string) (search : bool) : bool :=
  match get_op tb [] s search with Some _ => true | None => false end.

(* a scalar met by redactPipelineStage where a stage or operator document is expected *)
Definition p_leaf (rfn : bool) (kp : list string) (search : bool) (t : json) : json :=
  match t with
  | JNull => JNull
  | JStr s => if starts_with_dollar s then dollar_string rfn s else scalar kp "" t search false
  | _ => scalar kp "" t search false
  end.

Section Rec.
Variable rec : mode -> json -> json.

(* one element of an array handled by redactArrayValuesWithKey *)
Definition arr_item (pk : string) (rfn search sel : bool) (kp : list string) (x : json) : json :=
  match x with
  | JObj _ => rec (MQ rfn search MNil kp) x
  | JArr _ => rec (MA pk rfn search sel kp) x
  | JNull => JNull
  | JStr s => if starts_with_dollar s then dollar_string rfn s
              else scalar [] pk x search (sel || re_matches_any kp)
  | _ => scalar [] pk x search (sel || re_matches_any kp)
  end.

(* the generic tail shared by several branches: object -> pipeline walker, array -> array walker, else scalar *)
Definition walk_value (rfn search : bool) (kp : list string) (sinit : list string) (slast : string) (v : json) : json :=
  match v with
  | JObj _ => rec (MP rfn kp search) v
  | JArr l => rec (MA "" rfn search (sel_of l) kp) v
  | _ => scalar sinit slast v search false
  end.

(* value under a FieldName-typed key; [top] tells the top-level site (which looks at len(keyPath)) *)
Definition fieldname_value (rfn search : bool) (kp_here : list string) (sinit : list string) (slast : string)
           (keep_string : string -> bool) (v : json) : json :=
  if rfn then
    match v with
    | JStr s => if keep_string s then v else JStr (hn s)
    | JObj _ => rec (MP rfn kp_here search) v
    | JArr l => rec (MA "" rfn search (sel_of l) kp_here) v
    | _ => scalar sinit slast v search false
    end
  else
    match v with
    | JObj _ => if search then v else rec (MP rfn kp_here search) v
    | _ => v
    end.

(* value of a Pipeline-typed key that is an object: a map of named sub-pipelines *)
Definition pipeline_map_member (rfn : bool) (subk : string) (subv : json) : json :=
  match subv with
  | JArr l => JArr (map (fun st => rec (MP rfn [] (is_in_search_stage tb st)) st) l)
  | JObj _ => rec (MP rfn [] false) subv
  | _ => scalar [] subk subv false false
  end.

(* one member (subk, subv) of the object value of a key whose table entry is the map [m] *)
Definition sub_member (rfn search : bool) (nkp : list string) (k : string) (m : list (string * meta))
           (subk : string) (subv : json) : string * json :=
  let sub := oget m subk in
  let fallthrough :=
    let rk := if rfn && (match sub with None => true | Some MNil => true | _ => false end) then hn subk else subk in
    (rk, walk_value rfn search (nkp ++ [subk]) nkp subk subv) in
  match sub with
  | Some (MT FieldName) =>
      (subk, fieldname_value rfn search (nkp ++ [subk]) nkp subk (fun s => is_op_name s search) subv)
  | Some (MT Namespace) => (subk, if nss c then ns_value subv else subv)
  | Some (MT Exempt) => (subk, subv)
  | Some (MT OperatorArray) =>
      (subk, match subv with JArr l => JArr (map (fun e => rec (MP rfn nkp search) e) l) | _ => subv end)
  | Some (MT Pipeline) =>
      (subk, match subv with JArr l => rec (MA "" rfn search (sel_of l) nkp) subv | _ => subv end)
  | _ => fallthrough
  end.

(* the table entry that governs key k below key path kp; in a search stage a map-typed entry is
   first rewritten by augmentOp against the operator's own arguments *)
Definition p_op (kp : list string) (k : string) (search : bool) (v : json) : option meta :=
  let op0 := get_op tb kp k search in
  match op0, v with
  | Some (MMap om), JObj vm => if search then Some (MMap (augment_op (re c) om vm)) else op0
  | _, _ => op0
  end.

Definition p_key (rfn : bool) (kp : list string) (k : string) (search : bool) : string :=
  if rfn && (match get_op tb kp k search with None => true | Some MNil => true | _ => false end) then hn k else k.

Definition p_generic (rfn : bool) (kp : list string) (search : bool) (k : string) (v : json) : json :=
  match v with
  | JStr s => if starts_with_dollar s && negb rfn then v else scalar kp k v search false
  | _ => walk_value rfn search (kp ++ [k]) kp k v
  end.

(* one member (k, v) of an object handled by redactPipelineStage with key path kp *)
Definition p_member (rfn : bool) (kp : list string) (search : bool) (k : string) (v : json) : string * json :=
  let nkp := (kp ++ [k])%list in
  let rk := p_key rfn kp k search in
  match p_op kp k search v with
  | Some (MT FieldName) =>
      (rk, fieldname_value rfn search nkp [] k
             (fun s => (match kp with [] => false | _ => true end) || is_op_name s search) v)
  | Some (MT Namespace) => (rk, if nss c then ns_value v else v)
  | Some (MT Exempt) => (rk, v)
  | Some (MT Pipeline) =>
      (rk, match v with
           | JArr l => rec (MA "" rfn search (sel_of l) nkp) v
           | JObj vm => JObj (build (map (fun kv => (fst kv, pipeline_map_member rfn (fst kv) (snd kv))) vm))
           | _ => v
           end)
  | Some (MT OperatorArray) =>
      (rk, match v with JArr l => JArr (map (fun e => rec (MP rfn nkp search) e) l) | _ => v end)
  | Some (MMap m) =>
      match v with
      | JObj vm => (rk, JObj (build (map (fun kv => sub_member rfn search nkp k m (fst kv) (snd kv)) vm)))
      | _ => (rk, p_generic rfn kp search k v)
      end
  | _ => (rk, p_generic rfn kp search k v)
  end.

(* one member (k, v) of an object handled by redactQueryValues *)
Definition q_member (rfn search : bool) (parent : meta) (kp : list string) (k : string) (v : json) : string * json :=
  let nkp := (kp ++ [k])%list in
  let found := match parent with
               | MMap pm => oget pm k
               | _ => oget (Core tb) k
               end in
  let core_op := match found with Some m => m | None => MNil end in
  let rk := if rfn && (match found with None => true | Some _ => false end) then hn k else k in
  (rk, match v with
       | JObj _ => rec (MQ rfn search core_op nkp) v
       | JArr l => rec (MA k rfn search (sel_of l) nkp) v
       | JNull => JNull
       | JStr s => if starts_with_dollar s then dollar_string rfn s
                   else if is_ty core_op Exempt then v else scalar kp k v search false
       | _ => if is_ty core_op Exempt then v else scalar kp k v search false
       end).

End Rec.

Fixpoint walk (m : mode) (t : json) {struct t} : json :=
  match t with
  | JObj l =>
    match m with
    | MP rfn kp search => JObj (build (map (fun kv => p_member walk rfn kp search (fst kv) (snd kv)) l))
    | MQ rfn search parent kp => JObj (build (map (fun kv => q_member walk rfn search parent kp (fst kv) (snd kv)) l))
    | MA _ _ _ _ _ => t
    end
  | JArr l =>
    match m with
    | MP rfn kp search => JArr (map (arr_item walk "" rfn search (sel_of l) kp) l)
    | MA pk rfn search sel kp => JArr (map (arr_item walk pk rfn search sel kp) l)
    | MQ _ _ _ _ => t
    end
  | _ =>
    match m with
    | MP rfn kp search => p_leaf rfn kp search t
    | _ => t
    end
  end.

End Walk.
