(* bufio.Scanner with ScanLines and its token limit (64 KiB by default; the value is regenerated), and the loop of
   processMongoLogStream (src/reader.go:70-99) with an explicit reader / writer fault model. *)
From Coq Require Import NArith.
From Model Require Export Line.
From Gen Require Import Limits.
Open Scope char_scope. Open Scope list_scope.

Definition nl : ascii := ascii_of_N 10.
Definition cr : ascii := ascii_of_N 13.
(* the reader's limit is not written down here: it is measured on the compiled program on every run (Gen/Limits.v) *)
Definition max_token : N := max_token_dumped.

(* terminated lines (without their newline) and the unterminated tail *)
Fixpoint split_lines (l : list ascii) : list (list ascii) * list ascii :=
  match l with
  | [] => ([], [])
  | ch :: r =>
    let (ls, tl) := split_lines r in
    if Ascii.eqb ch nl then ([] :: ls, tl)
    else match ls with
         | [] => ([], ch :: tl)
         | l1 :: ls' => ((ch :: l1) :: ls', tl)
         end
  end.

(* dropCR: one trailing carriage return is removed *)
Fixpoint drop_cr (l : list ascii) : list ascii :=
  match l with
  | [] => []
  | [ch] => if Ascii.eqb ch cr then [] else [ch]
  | ch :: r => ch :: drop_cr r
  end.

Inductive rend := REof | RErr.         (* how the reader ends after delivering its data *)
Inductive sres := SOk | STooLong | SReadErr.

Definition len_N (l : list ascii) : N := N.of_nat (List.length l).

(* tokens delivered by the scanner before it stops, and why it stopped *)
Fixpoint scan_terminated (ls : list (list ascii)) : list (list ascii) * bool :=
  match ls with
  | [] => ([], false)
  | l :: r => if (max_token <? len_N l + 1)%N then ([], true)
              else let (ts, tl) := scan_terminated r in (drop_cr l :: ts, tl)
  end.

Definition scan (data : list ascii) (e : rend) : list (list ascii) * sres :=
  let (ls, tail) := split_lines data in
  let (ts, toolong) := scan_terminated ls in
  if toolong then (ts, STooLong)
  else match tail with
       | [] => (ts, match e with REof => SOk | RErr => SReadErr end)
       | _ => if (max_token <=? len_N tail)%N then (ts, STooLong)
              else (ts ++ [drop_cr tail], match e with REof => SOk | RErr => SReadErr end)
       end.

Inductive wres := Accept | Fail (taken : nat).
Inductive result := ROk | RWriteErr | RScanErr (s : sres).

Section Stream.
Variable tb : tables.
Variable cs : consts.
Variable c : cfg.
Variable enc : encf.

Definition emit (l : list ascii) : list ascii :=
  match redact_line tb cs c enc l with Out o => o ++ [nl] | Skip => [] end.

(* the loop; bar = Some (current, max) models the progress bar consulted for blank lines *)
Fixpoint loop (tokens : list (list ascii)) (writer : nat -> wres) (widx : nat)
         (bar : option (nat * nat)) (written : list ascii) (final : sres) : result * list ascii :=
  match tokens with
  | [] => (match final with SOk => ROk | s => RScanErr s end, written)
  | t :: r =>
    let bar' := match bar with Some (cur, mx) => Some (S cur, mx) | None => None end in
    let blank_special := match t, bar with [], Some (cur, mx) => Nat.eqb cur mx | _, _ => false end in
    if blank_special then loop r writer widx bar' written final else
    match redact_line tb cs c enc t with
    | Skip => loop r writer widx bar' written final
    | Out o =>
      let chunk := o ++ [nl] in
      match writer widx with
      | Accept => loop r writer (S widx) bar' (written ++ chunk) final
      | Fail n => (RWriteErr, written ++ firstn n chunk)
      end
    end
  end.

Definition run_io (data : list ascii) (e : rend) (writer : nat -> wres) (bar : option (nat * nat)) : result * list ascii :=
  let (tokens, final) := scan data e in
  loop tokens writer 0 bar [] final.

(* fault-free run *)
Definition stream (data : list ascii) : list ascii :=
  snd (run_io data REof (fun _ => Accept) None).

End Stream.
