(* ParsePlanSummary and redactFieldNamesFromPlanSummary (src/helpers.go:20, src/anonymizer.go:210).
   The fixed regexp IXSCAN\s*\{([^}]+)\} is matched by a hand-written scanner. *)
From Coq Require Import NArith.
From Model Require Export Json Hash Utf8.
Open Scope char_scope. Open Scope list_scope.

Fixpoint is_prefix (p l : list ascii) : option (list ascii) :=
  match p, l with
  | [], _ => Some l
  | a :: p', b :: l' => if Ascii.eqb a b then is_prefix p' l' else None
  | _, [] => None
  end.

(* RE2 \s : [\t\n\f\r ] *)
Definition re_space (ch : ascii) : bool :=
  let n := N_of_ascii ch in ((n =? 9) || (n =? 10) || (n =? 12) || (n =? 13) || (n =? 32))%N.

Fixpoint skip_re_space (l : list ascii) : list ascii :=
  match l with ch :: r => if re_space ch then skip_re_space r else l | [] => [] end.

Fixpoint take_until_brace (l : list ascii) : option (list ascii * list ascii) :=
  match l with
  | [] => None
  | ch :: r => if Ascii.eqb ch "}" then Some ([], r)
               else match take_until_brace r with Some (a, b) => Some (ch :: a, b) | None => None end
  end.

(* one match attempt at the head of l: Some (content, rest after the match) *)
Definition match_ixscan (l : list ascii) : option (list ascii * list ascii) :=
  match is_prefix ["I"; "X"; "S"; "C"; "A"; "N"] l with
  | None => None
  | Some r =>
    match skip_re_space r with
    | "{" :: r2 =>
      match take_until_brace r2 with
      | Some (content, rest) => match content with [] => None | _ => Some (content, rest) end
      | None => None
      end
    | _ => None
    end
  end.

Fixpoint find_all (fuel : nat) (l : list ascii) : list (list ascii) :=
  match fuel with
  | O => []
  | S f =>
    match l with
    | [] => []
    | _ :: r =>
      match match_ixscan l with
      | Some (content, rest) => content :: find_all f rest
      | None => find_all f r
      end
    end
  end.

(* strings.TrimSpace: ASCII white space plus the multi-byte Unicode spaces *)
Definition uspaces : list (list ascii) :=
  map (map ascii_of_N)
  ([[9]; [10]; [11]; [12]; [13]; [32]; [194; 133]; [194; 160]; [225; 154; 128]] ++
   map (fun x => [226; 128; x]) [128; 129; 130; 131; 132; 133; 134; 135; 136; 137; 138; 168; 169; 175] ++
   [[226; 129; 159]; [227; 128; 128]])%N.

Fixpoint first_some {A B} (f : A -> option B) (l : list A) : option B :=
  match l with [] => None | x :: r => match f x with Some y => Some y | None => first_some f r end end.

Definition uspaces_rev : list (list ascii) := map (@rev ascii) uspaces.

Fixpoint trim_left_with (sps : list (list ascii)) (fuel : nat) (l : list ascii) : list ascii :=
  match fuel with
  | O => l
  | S f => match first_some (fun sp => is_prefix sp l) sps with
           | Some r => trim_left_with sps f r
           | None => l
           end
  end.

Definition trim_space (l : list ascii) : list ascii :=
  let a := trim_left_with uspaces (S (List.length l)) l in
  let ra := rev a in
  rev (trim_left_with uspaces_rev (S (List.length ra)) ra).

Definition key_of_pair (pf : list ascii) : list ascii :=
  match split_on ":" pf with
  | k :: _ => trim_space k
  | [] => []
  end.

Fixpoint str_leb (a b : list ascii) : bool :=
  match a, b with
  | [], _ => true
  | _ :: _, [] => false
  | x :: a', y :: b' =>
    let nx := nat_of_ascii x in let ny := nat_of_ascii y in
    if (nx <? ny)%nat then true else if (ny <? nx)%nat then false else str_leb a' b'
  end.

Definition str_eqb (a b : list ascii) : bool := str_leb a b && str_leb b a.

Fixpoint insert_sorted (x : list ascii) (l : list (list ascii)) : list (list ascii) :=
  match l with
  | [] => [x]
  | y :: r => if str_eqb x y then l else if str_leb x y then x :: l else y :: insert_sorted x r
  end.

Definition parse_plan_summary (ps : string) : list string :=
  let l := list_ascii_of_string ps in
  let contents := find_all (S (List.length l)) l in
  let keys := List.concat (map (fun content =>
                 List.concat (map (fun pf =>
                    let key := key_of_pair pf in
                    match key with [] => [] | _ => split_on "." key end) (split_on "," content))) contents) in
  map string_of_list_ascii (fold_left (fun acc k => insert_sorted k acc) keys []).

(* strings.ReplaceAll on bytes; for an empty [old] Go inserts [new] before every rune and at the end *)
Fixpoint replace_all_ne (fuel : nat) (old new l : list ascii) : list ascii :=
  match fuel with
  | O => l
  | S f =>
    match l with
    | [] => []
    | ch :: r =>
      match is_prefix old l with
      | Some rest => new ++ replace_all_ne f old new rest
      | None => ch :: replace_all_ne f old new r
      end
    end
  end.

Fixpoint insert_between_runes (fuel : nat) (new l : list ascii) : list ascii :=
  match fuel with
  | O => l
  | S f =>
    match l with
    | [] => new
    | ch :: r =>
      let size := match decode_rune (map N_of_ascii l) with Some (_, n) => n | None => 1%nat end in
      new ++ firstn size l ++ insert_between_runes f new (skipn size l)
    end
  end.

Definition replace_all (old new l : list ascii) : list ascii :=
  match old with
  | [] => insert_between_runes (S (List.length l)) new l
  | _ => replace_all_ne (S (List.length l)) old new l
  end.

Definition redact_plan_summary_with (hn : string -> string) (ps : string) : string :=
  if String.eqb ps "COLLSCAN" then ps else
  string_of_list_ascii
    (fold_left (fun acc f => replace_all (list_ascii_of_string f) (list_ascii_of_string (hn f)) acc)
               (parse_plan_summary ps) (list_ascii_of_string ps)).

Definition redact_plan_summary (repl : string) (ps : string) : string :=
  redact_plan_summary_with (hash_name repl) ps.
