(* The `redact` command END TO END (the Run function of src/main.go, lines 75-300, with ProcessMongoLogFile of
   src/reader.go): one function from the command line, the environment and a file system to the new file system,
   what was written to standard output, the requests made and the exit status. It composes, in program order, the
   validation chain (Cli.v), the creation of the output file, the key-file step (KeyFile.v), the choice of the input
   channel (file / gzip file by suffix / stdin), the stream processor (Stream.v) and the Atlas branch (Atlas.v).
   gunzip, Encrypt, the random source, the HTTP world and the writer's fault behaviour are PARAMETERS (fields of the
   world), never axioms. The text of the progress bar (written to stdout when --outputFile is given) and of the
   error messages is not modelled. *)
From Coq Require Import String List NArith ZArith Bool Ascii DecimalString.
From Model Require Import Json Tables Walker Line Stream Base64 KeyFile Cli Atlas.
From Gen Require Import Limits.
Import ListNotations.
Open Scope list_scope.

(* ---------- the file system, as far as the command looks at it ---------- *)
Inductive fstate :=
| FAbsent (parent_ok : bool)            (* no such path; can it be created (does the parent directory exist, writable)? *)
| FFile (content : list ascii) (mode : N)
| FDir
| FUnreadable (content : list ascii) (mode : N).   (* a file this user can neither read nor write *)

Definition fsys := string -> fstate.
Definition upd (fs : fsys) (p : string) (s : fstate) : fsys := fun q => if String.eqb q p then s else fs q.

Definition mode_0644 : N := 420.

(* os.Create: O_RDWR|O_CREATE|O_TRUNC, 0666 under umask 022 *)
Definition create (fs : fsys) (p : string) : option fsys :=
  match fs p with
  | FAbsent true => Some (upd fs p (FFile [] mode_0644))
  | FFile _ m => Some (upd fs p (FFile [] m))
  | _ => None
  end.

Definition set_content (fs : fsys) (p : string) (data : list ascii) : fsys :=
  match fs p with
  | FFile _ m => upd fs p (FFile data m)
  | _ => fs
  end.

(* the key path as the key-file state machine sees it, and back *)
Definition kstate_of (s : fstate) : kstate :=
  match s with
  | FAbsent true => KAbsent | FAbsent false => KParentMissing
  | FFile c m => KFile c m | FDir => KDir | FUnreadable _ _ => KUnreadable
  end.
Definition fstate_of (old : fstate) (k : kstate) : fstate :=
  match k with
  | KFile c m => FFile c m
  | _ => old                (* run_key changes the state only by creating the file *)
  end.

(* ---------- the command line and the environment ---------- *)
Record jargs := {
  a_file : option string;        (* positional argument (Some "" when given as the empty string) *)
  a_out : string;                (* --outputFile, "" when not given *)
  a_encrypt : bool;
  a_keyfile : string;            (* --encryptionKeyFile (default ./anonymongo.enc.key) *)
  a_cfg : cfg;                   (* --replacement, -n -b -i -w, --redactFieldNames, --redactFieldsRegexp (as a predicate) *)
  a_regexp_given : bool;         (* --redactFieldsRegexp has a non-empty value *)
  a_fieldnames_given : bool;     (* --redactFieldNames was given at all *)
  a_proj : string; a_cluster : string; a_pub : string; a_priv : string;
  a_start : Z; a_end : Z;
  a_env : bool                   (* ATLAS_PUBLIC_KEY and ATLAS_PRIVATE_KEY in the environment *)
}.

Record jworld := {
  w_fs : fsys;
  w_stdin : option (list ascii);                         (* Some data: stdin is not a character device *)
  w_rnd : list N;                                        (* what crypto/rand delivers to GenerateKey *)
  w_encrypt : list N -> string -> option string;         (* Encrypt under a key, base64 text; None = error *)
  w_gunzip : list ascii -> list ascii * rend;            (* what the gzip reader delivers, and how it ends *)
  w_writer : nat -> wres;                                (* fault behaviour of the output writer (k-th write) *)
  w_atlas : world;                                       (* the endpoint's answers *)
  w_now : Z
}.

Definition nonempty_s (s : string) : bool := negb (String.eqb s "").

Definition flags_of (a : jargs) (w : jworld) : flags :=
  {| f_file := match a_file a with Some _ => true | None => false end;
     f_stdin := match w_stdin w with Some _ => true | None => false end;
     f_out := nonempty_s (a_out a); f_encrypt := a_encrypt a;
     f_regexp := a_regexp_given a; f_fieldnames := a_fieldnames_given a;
     f_proj := nonempty_s (a_proj a); f_cluster := nonempty_s (a_cluster a);
     f_pub := nonempty_s (a_pub a); f_priv := nonempty_s (a_priv a);
     f_start := negb (Z.eqb (a_start a) 0); f_end := negb (Z.eqb (a_end a) 0); f_env := a_env a |}.

(* which files are decompressed is decided by the END of the file name, letter case ignored (strings.ToLower(filepath.Ext(path))); the endings
   themselves (".gz" today) are not written down here: they are found on the compiled program on every run (Gen/Limits.v) *)
Definition lower (ch : ascii) : ascii :=
  let n := N_of_ascii ch in if ((65 <=? n) && (n <=? 90))%N then ascii_of_N (n + 32) else ch.
Fixpoint starts_with (p l : list ascii) : bool :=
  match p, l with
  | [], _ => true
  | a :: p', b :: l' => Ascii.eqb a b && starts_with p' l'
  | _ :: _, [] => false
  end.
Definition ends_with_ci (path suffix : string) : bool :=
  starts_with (rev (list_ascii_of_string suffix)) (map lower (rev (list_ascii_of_string path))).
Definition is_gz (path : string) : bool := existsb (ends_with_ci path) gz_suffixes_dumped.

Fixpoint count_nl (l : list ascii) : nat :=
  match l with [] => 0%nat | ch :: r => ((if Ascii.eqb ch nl then 1 else 0) + count_nl r)%nat end.

Record jresult := {
  j_fs : fsys;
  j_stdout : list ascii;       (* redacted output when no --outputFile is given (progress text is not modelled) *)
  j_trace : list req;          (* Atlas requests *)
  j_tmp_left : nat;            (* downloaded logs still in the temporary directory at exit *)
  j_status : status
}.

Definition fail (fs : fsys) : jresult := {| j_fs := fs; j_stdout := []; j_trace := []; j_tmp_left := 0; j_status := Exit1 |}.

Section Job.
Variable tb : tables.
Variable cs : consts.

Definition dec_of_nat (i : nat) : string := NilZero.string_of_uint (Nat.to_uint i).

(* Atlas mode: <out>.<i> := redaction of host i's log; every such file is created (truncated) before it is written *)
Fixpoint write_outs (fs : fsys) (out : string) (outs : list (nat * list ascii)) : fsys :=
  match outs with
  | [] => fs
  | (i, o) :: r =>
    let p := (out ++ "." ++ dec_of_nat i)%string in
    match create fs p with
    | Some fs' => write_outs (set_content fs' p o) out r
    | None => fs
    end
  end.

(* 1. the output file: os.Create before anything is read *)
Definition stage_out (a : jargs) (w : jworld) : option fsys :=
  if nonempty_s (a_out a) then create (w_fs w) (a_out a) else Some (w_fs w).

(* 2. the key file: only when --encrypt AND a non-empty key path; None = the run ends with status 1 *)
Definition stage_key (a : jargs) (w : jworld) (fs1 : fsys) : option (fsys * encf) :=
  if a_encrypt a && nonempty_s (a_keyfile a) then
    match run_key (kstate_of (fs1 (a_keyfile a))) (w_rnd w) with
    | (k', KeyOk key) => Some (upd fs1 (a_keyfile a) (fstate_of (fs1 (a_keyfile a)) k'), Some (w_encrypt w key))
    | (_, KeyFail) => None
    end
  else Some (fs1, None).

(* where the bytes written by the stream processor end up *)
Definition deliver (a : jargs) (fs2 : fsys) (res : result * list ascii) : jresult :=
  let st := match fst res with ROk => Exit0 | _ => Exit1 end in
  if nonempty_s (a_out a)
  then {| j_fs := set_content fs2 (a_out a) (snd res); j_stdout := []; j_trace := []; j_tmp_left := 0; j_status := st |}
  else {| j_fs := fs2; j_stdout := snd res; j_trace := []; j_tmp_left := 0; j_status := st |}.

(* the input channel of a local job: what the stream processor gets to read, how the reader ends, and the bar *)
Definition local_input (a : jargs) (w : jworld) (m : inmode) (fs2 : fsys) : option (list ascii * rend * option (nat * nat)) :=
  match m with
  | MStdin => match w_stdin w with Some data => Some (data, REof, None) | None => None end
  | MFile =>
    match a_file a with
    | None => None
    | Some p =>
      match fs2 p with
      | FFile raw _ =>
        (* countLines counts the newline bytes of the file AS STORED (compressed for .gz) *)
        let bar := if nonempty_s (a_out a) then Some (0%nat, count_nl raw) else None in
        let (data, e) := if is_gz p then w_gunzip w raw else (raw, REof) in
        Some (data, e, bar)
      | _ => None                                        (* cannot be opened / read *)
      end
    end
  | MAtlas => None
  end.

(* 3. the run proper *)
Definition stage_run (a : jargs) (w : jworld) (m : inmode) (fs2 : fsys) (enc : encf) : jresult :=
  let c := a_cfg a in
  match m with
  | MAtlas =>
    let redact d := match run_io tb cs c enc d REof (fun _ => Accept) None with (ROk, o) => Some o | _ => None end in
    let gz raw := match w_gunzip w raw with (d, REof) => Some d | _ => None end in
    let out_ok i := match create fs2 (a_out a ++ "." ++ dec_of_nat i)%string with Some _ => true | None => false end in
    let r := atlas_run gz redact out_ok (w_atlas w) (a_start a) (a_end a) (w_now w) in
    {| j_fs := write_outs fs2 (a_out a) (r_outs r); j_stdout := []; j_trace := r_trace r;
       j_tmp_left := List.length (r_tmp_left r); j_status := r_status r |}
  | _ =>
    match local_input a w m fs2 with
    | Some (data, e, bar) => deliver a fs2 (run_io tb cs c enc data e (w_writer w) bar)
    | None => fail fs2
    end
  end.

Definition job (a : jargs) (w : jworld) : jresult :=
  match decide (flags_of a w) with
  | CReject _ => fail (w_fs w)                              (* before any side effect *)
  | CAccept m =>
    match stage_out a w with
    | None => fail (w_fs w)                                 (* "Error opening output file" *)
    | Some fs1 =>
      match stage_key a w fs1 with
      | None => fail fs1                                    (* output file already created / truncated, nothing written *)
      | Some (fs2, enc) => stage_run a w m fs2 enc
      end
    end
  end.

End Job.
