(* The key-file life cycle of `redact --encrypt` (src/main.go:156-179, src/encryption.go:51-85,
   src/helpers.go:205-211) and the `decrypt` command (src/main.go:304-333), with the file system
   state of the key path and the encryption primitive as explicit parameters. *)
From Coq Require Import NArith.
From Model Require Export Json Base64.
Open Scope list_scope.

Inductive kstate :=
| KAbsent                                   (* no such file, parent directory exists *)
| KFile (content : list ascii) (mode : N)   (* a regular file *)
| KDir                                      (* the path is a directory *)
| KParentMissing                            (* the parent directory does not exist *)
| KUnreadable.                              (* exists but cannot be read *)

Inductive koutcome := KeyOk (key : list N) | KeyFail.

(* ReadKeyFromFile: base64 (CR / LF ignored), exactly 64 bytes *)
Definition read_key (content : list ascii) : option (list N) :=
  match b64_decode content with
  | Some k => if Nat.eqb (List.length k) 64 then Some k else None
  | None => None
  end.

Definition mode_0600 : N := 384.

(* one run: FileExists decides between GenerateKey + WriteKeyToFile and ReadKeyFromFile;
   rnd is what crypto/rand delivers to GenerateKey *)
Definition run_key (st : kstate) (rnd : list N) : kstate * koutcome :=
  match st with
  | KAbsent => (KFile (b64_encode rnd) mode_0600, KeyOk rnd)
  | KFile content m => (st, match read_key content with Some k => KeyOk k | None => KeyFail end)
  | KDir => (KDir, KeyFail)               (* FileExists says false (a directory); WriteFile then fails *)
  | KParentMissing => (KParentMissing, KeyFail)
  | KUnreadable => (KUnreadable, KeyFail)
  end.

(* a whole encrypting run: the key step comes first; without a key nothing is redacted *)
Definition encrypt_run {Out} (redact : list N -> Out) (empty : Out) (st : kstate) (rnd : list N) : kstate * (bool * Out) :=
  match run_key st rnd with
  | (st', KeyOk k) => (st', (true, redact k))
  | (st', KeyFail) => (st', (false, empty))
  end.

Section Decrypt.
Variable dec : list N -> list N -> option (list N).   (* Decrypt(ciphertext, key) *)

Inductive dres := DOk (plain : list N) | DErrKey | DErrBase64 | DErrDecrypt.

(* the decrypt command: key file -> base64 decode of the argument -> Decrypt -> print *)
Definition decrypt_cmd (st : kstate) (value : list ascii) : dres :=
  match st with
  | KFile content _ =>
    match read_key content with
    | None => DErrKey
    | Some k =>
      match b64_decode value with
      | None => DErrBase64
      | Some ct => match dec k ct with Some m => DOk m | None => DErrDecrypt end
      end
    end
  | _ => DErrKey
  end.
End Decrypt.
