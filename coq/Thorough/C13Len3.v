(* Thorough tier only (not in _CoqProject): the dictionary of C13 at length <= 3 - no two of the
   65,641 strings of length <= 3 over the 40-symbol alphabet share a pseudonym. Finite, exhaustive,
   by kernel computation; the bound is part of the statement. *)
From Coq Require Import NArith List String Ascii.
From Model Require Import Json Sha256 Hash.
From Proofs Require Import HashProofs.
Import ListNotations.
Open Scope string_scope.

Theorem C13_injective_len3 : forall r a b,
  In a (words_upto alphabet40 3) -> In b (words_upto alphabet40 3) -> pseudo r a = pseudo r b -> a = b.
Proof. apply dict_injective. vm_compute. reflexivity. Qed.
Print Assumptions C13_injective_len3.

Example C13_dict3_size : N.of_nat (List.length (words_upto alphabet40 3)) = 65641%N.
Proof. vm_compute. reflexivity. Qed.
