(* I/O glue only: reads requests (one per line, fields separated by a space, payloads in
   hex) and evaluates the extracted model on them. *)
let out_s = Stdlib.print_string
let out_nl = Stdlib.print_newline
open Model

let hex_decode (s : string) : string =
  if s = "-" then "" else
  let n = String.length s / 2 in
  String.init n (fun i -> Char.chr (int_of_string ("0x" ^ String.sub s (2 * i) 2)))

let hex_encode (s : string) : string =
  if s = "" then "-" else
  let b = Buffer.create (2 * String.length s) in
  String.iter (fun c -> Buffer.add_string b (Printf.sprintf "%02x" (Char.code c))) s;
  Buffer.contents b

let chars_of (s : string) : char list = List.init (String.length s) (String.get s)
let string_of_chars (l : char list) : string =
  let b = Buffer.create 256 in List.iter (Buffer.add_char b) l; Buffer.contents b

let rec nat_of_int (n : int) = if n <= 0 then O else S (nat_of_int (n - 1))
let rec int_of_nat = function O -> 0 | S n -> 1 + int_of_nat n

let rec n_of_int (n : int) : n = if n = 0 then N0 else Npos (pos_of_int n)
and pos_of_int (n : int) : positive =
  if n = 1 then XH else if n land 1 = 0 then XO (pos_of_int (n lsr 1)) else XI (pos_of_int (n lsr 1))
let rec int_of_pos = function XH -> 1 | XO p -> 2 * int_of_pos p | XI p -> 2 * int_of_pos p + 1
let int_of_n = function N0 -> 0 | Npos p -> int_of_pos p

let split_char c s = if s = "-" then [] else String.split_on_char c s

let remiss = ref false

let cfg_of (fields : string list) : cfg * (string -> string option) option =
  match fields with
  | [flags; repl; eager; re; enc] ->
    let b i = flags.[i] = '1' in
    let re_f =
      if re = "-" then None else begin
        let tbl = Hashtbl.create 64 in
        List.iter (fun item ->
          if item <> "" && item <> "=" then
          match String.split_on_char ':' item with
          | [h; v] -> Hashtbl.replace tbl (hex_decode h) (v = "1")
          | _ -> failwith "bad re item") (String.split_on_char ',' re);
        Some (fun name -> match Hashtbl.find_opt tbl name with Some v -> v | None -> remiss := true; false)
      end in
    let enc_f =
      if enc = "-" then None else begin
        let tbl = Hashtbl.create 64 in
        List.iter (fun item ->
          if item <> "" && item <> "=" then
          match String.split_on_char ':' item with
          | [h; v] -> Hashtbl.replace tbl (hex_decode h) (if v = "!" then None else Some (hex_decode v))
          | _ -> failwith "bad enc item") (String.split_on_char ',' enc);
        Some (fun s -> match Hashtbl.find_opt tbl s with Some v -> v | None -> remiss := true; Some "<<ENC-TABLE-MISS>>")
      end in
    ({ repl = hex_decode repl; nums = b 0; bools = b 1; ips = b 2; nss = b 3;
       eager = List.map (fun h -> if h = "=" then "" else hex_decode h) (split_char ',' eager); re = re_f }, enc_f)
  | _ -> failwith "bad CFG"

let () =
  let c = ref { repl = "REDACTED"; nums = false; bools = false; ips = false; nss = false; eager = []; re = None } in
  let e = ref None in
  (try
    while true do
      let line = input_line stdin in
      remiss := false;
      let fields = String.split_on_char ' ' line in
      (match fields with
       | "CFG" :: rest -> let (c', e') = cfg_of rest in c := c'; e := e'; out_s "OK"
       | ["LINE"; h] ->
         (match redact_line current current_consts !c !e (chars_of (hex_decode h)) with
          | Out o -> out_s ("OUT " ^ hex_encode (string_of_chars o))
          | Skip -> out_s "SKIP")
       | ["STREAM"; h; en; wfail; wshort; bar] ->
         let wf = int_of_string wfail and ws = int_of_string wshort and br = int_of_string bar in
         let writer i = if wf >= 0 && int_of_nat i = wf then Fail (nat_of_int ws) else Accept in
         let barv = if br < 0 then None else Some (O, nat_of_int br) in
         let (res, out) = run_io current current_consts !c !e (chars_of (hex_decode h)) (if en = "E" then REof else RErr) writer barv in
         let r = match res with ROk -> "ok" | RWriteErr -> "werr" | RScanErr STooLong -> "toolong" | RScanErr SReadErr -> "rerr" | RScanErr SOk -> "ok" in
         out_s ("RES " ^ r ^ " " ^ hex_encode (string_of_chars out))
       | ["HASH"; r; h] -> out_s (hex_encode (hash_name (hex_decode r) (hex_decode h)))
       | ["EMAIL"; h] -> out_s (if is_email (hex_decode h) then "1" else "0")
       | ["PLAN"; r; h] ->
         let fs = parse_plan_summary (hex_decode h) in
         out_s (String.concat "," (List.map hex_encode fs) ^ " " ^ hex_encode (redact_plan_summary (hex_decode r) (hex_decode h)))
       | ["SHA"; h] -> out_s (sha256_hex (hex_decode h))
       | ["B64"; h] ->
         let bytes = List.map (fun ch -> n_of_int (Char.code ch)) (chars_of (hex_decode h)) in
         let e = string_of_chars (b64_encode bytes) in
         let d = match b64_decode (chars_of (hex_decode h)) with
           | Some l -> hex_encode (String.init (List.length l) (fun i -> Char.chr (int_of_n (List.nth l i))))
           | None -> "!" in
         out_s (hex_encode e ^ " " ^ d)
       | ["KEY"; st; content; rnd] ->
         let bytes_of h = List.map (fun ch -> n_of_int (Char.code ch)) (chars_of (hex_decode h)) in
         let str_of l = hex_encode (String.init (List.length l) (fun i -> Char.chr (int_of_n (List.nth l i)))) in
         let s0 = match st with "A" -> KAbsent | "F" -> KFile (chars_of (hex_decode content), n_of_int 420) | "D" -> KDir | "P" -> KParentMissing | _ -> KUnreadable in
         let (s1, o) = run_key s0 (bytes_of rnd) in
         let ss = match s1 with KAbsent -> "A -" | KFile (c, m) -> "F " ^ hex_encode (string_of_chars c) ^ ":" ^ string_of_int (int_of_n m) | KDir -> "D -" | KParentMissing -> "P -" | KUnreadable -> "U -" in
         out_s (ss ^ " " ^ (match o with KeyOk k -> "OK " ^ str_of k | KeyFail -> "FAIL"))
       | ["ATLAS"; ch; cst; hosts; logs; sz; ez; nowz; gz] ->
         let rec z_of_int (n : int) : z = if n = 0 then Z0 else if n > 0 then Zpos (pos_of_int n) else Zneg (pos_of_int (- n)) in
         let int_of_z = function Z0 -> 0 | Zpos p -> int_of_pos p | Zneg p -> - (int_of_pos p) in
         let resp_of item = match String.split_on_char ':' item with
           | ["S"; code; body] -> HStatus (nat_of_int (int_of_string code), chars_of (hex_decode body))
           | ["C"; sent; body] -> HCut (nat_of_int (int_of_string sent), chars_of (hex_decode body))
           | _ -> HReset in
         let w = { w_challenge = (ch = "1"); w_cluster = resp_of cst;
                   w_hosts = (if hosts = "!" then None else Some (List.map hex_decode (split_char ',' hosts)));
                   w_logs = List.map resp_of (split_char ',' logs) } in
         let gtbl = Hashtbl.create 16 in
         List.iter (fun item -> match String.split_on_char ':' item with
           | [k; v] -> Hashtbl.replace gtbl (hex_decode k) (if v = "!" then None else Some (hex_decode v)) | _ -> ()) (split_char ',' gz);
         let gunzip b = match Hashtbl.find_opt gtbl (string_of_chars b) with Some (Some d) -> Some (chars_of d) | _ -> None in
         let redact d = match run_io current current_consts !c !e d REof (fun _ -> Accept) None with (ROk, o) -> Some o | _ -> None in
         let r = atlas_run gunzip redact (fun _ -> true) w (z_of_int (int_of_string sz)) (z_of_int (int_of_string ez)) (z_of_int (int_of_string nowz)) in
         let tr = String.concat "," (List.map (function RCluster a -> if a then "C1" else "C0"
                    | RLog (h, a, s1, e1) -> "L" ^ hex_encode h ^ ":" ^ (if a then "1" else "0") ^ ":" ^ string_of_int (int_of_z s1) ^ ":" ^ string_of_int (int_of_z e1)) r.r_trace) in
         let outs = String.concat "," (List.map (fun (i, o) -> string_of_int (int_of_nat i) ^ ":" ^ hex_encode (string_of_chars o)) r.r_outs) in
         out_s ((if tr = "" then "-" else tr) ^ " " ^ (if outs = "" then "-" else outs) ^ " " ^ string_of_int (List.length r.r_tmp_left) ^ " " ^ (match r.r_status with Exit0 -> "0" | Exit1 -> "1"))
       | ["JOBA"; ch; cst; hosts; logs; sz; ez; nowz; gz; outp; fsl] ->
         (* the Atlas branch of the whole command (Model/Job.v): same world as ATLAS, plus the output path and the files already in the working directory *)
         let rec z_of_int (n : int) : z = if n = 0 then Z0 else if n > 0 then Zpos (pos_of_int n) else Zneg (pos_of_int (- n)) in
         let int_of_z = function Z0 -> 0 | Zpos p -> int_of_pos p | Zneg p -> - (int_of_pos p) in
         let resp_of item = match String.split_on_char ':' item with
           | ["S"; code; body] -> HStatus (nat_of_int (int_of_string code), chars_of (hex_decode body))
           | ["C"; sent; body] -> HCut (nat_of_int (int_of_string sent), chars_of (hex_decode body))
           | _ -> HReset in
         let aw = { w_challenge = (ch = "1"); w_cluster = resp_of cst;
                    w_hosts = (if hosts = "!" then None else Some (List.map hex_decode (split_char ',' hosts)));
                    w_logs = List.map resp_of (split_char ',' logs) } in
         let gtbl = Hashtbl.create 16 in
         List.iter (fun item -> match String.split_on_char ':' item with
           | [k; v] -> Hashtbl.replace gtbl (hex_decode k) (if v = "!" then None else Some (hex_decode v)) | _ -> ()) (split_char ',' gz);
         let gunzip b = match Hashtbl.find_opt gtbl (string_of_chars b) with Some (Some d) -> (chars_of d, REof) | _ -> ([], RErr) in
         let tbl = Hashtbl.create 16 in
         List.iter (fun item -> match String.split_on_char ':' item with
           | [pth; "D"] -> Hashtbl.replace tbl (hex_decode pth) FDir
           | [pth; "F"; mode; content] -> Hashtbl.replace tbl (hex_decode pth) (FFile (chars_of (hex_decode content), n_of_int (int_of_string mode)))
           | _ -> ()) (split_char ',' fsl);
         let fs0 pth = match Hashtbl.find_opt tbl pth with Some st -> st | None -> FAbsent true in
         let out = hex_decode outp in
         let a = { a_file = None; a_out = out; a_encrypt = false; a_keyfile = "k"; a_cfg = !c; a_regexp_given = false; a_fieldnames_given = false;
                   a_proj = "P"; a_cluster = "C"; a_pub = "pub"; a_priv = "priv"; a_start = z_of_int (int_of_string sz); a_end = z_of_int (int_of_string ez); a_env = false } in
         let w = { w_fs = fs0; w_stdin = None; w_rnd = []; w_encrypt = (fun _ _ -> None); w_gunzip = gunzip; w_writer = (fun _ -> Accept);
                   w_atlas = aw; w_now = z_of_int (int_of_string nowz) } in
         let r = job current current_consts a w in
         let tr = String.concat "," (List.map (function RCluster a -> if a then "C1" else "C0"
                    | RLog (h, a, s1, e1) -> "L" ^ hex_encode h ^ ":" ^ (if a then "1" else "0") ^ ":" ^ string_of_int (int_of_z s1) ^ ":" ^ string_of_int (int_of_z e1)) r.j_trace) in
         let nh = (match aw.w_hosts with Some l -> List.length l | None -> 0) in
         let paths = out :: List.init (nh + 1) (fun i -> out ^ "." ^ string_of_int i) in
         let show pth = match r.j_fs pth with
           | FFile (ct, m) -> Some (hex_encode pth ^ ":" ^ hex_encode (string_of_chars ct))
           | _ -> None in
         let files = List.filter_map show paths in
         out_s ((if tr = "" then "-" else tr) ^ " " ^ (if files = [] then "-" else String.concat "," files) ^ " " ^ string_of_int (int_of_nat r.j_tmp_left)
                ^ " " ^ (match r.j_status with Exit0 -> "0" | Exit1 -> "1"))
       | ["CLI"; bits] ->
         let b i = bits.[i] = '1' in
         let f = { f_file = b 0; f_stdin = b 1; f_out = b 2; f_encrypt = b 3; f_regexp = b 4; f_fieldnames = b 5;
                   f_proj = b 6; f_cluster = b 7; f_pub = b 8; f_priv = b 9; f_start = b 10; f_end = b 11; f_env = b 12 } in
         let v = match decide f with CReject r -> "reject:" ^ string_of_int (int_of_nat r) | CAccept MAtlas -> "accept:atlas" | CAccept MFile -> "accept:file" | CAccept MStdin -> "accept:stdin" in
         let e = String.concat "," (List.map (function ECreateOutput -> "out" | EKeyFile -> "key" | ENetwork -> "net" | EReadInput -> "read") (effects f)) in
         out_s (v ^ " " ^ (if e = "" then "-" else e))
       | ["CLIRAW"; v] ->
         let sv i = (match v.[i] with 'a' -> SAbsent | 'e' -> SEmpty | _ -> SGiven) in
         let dv i = (match v.[i] with 'a' -> DAbsent | 'z' -> DZero | 'n' -> DNeg | _ -> DPos) in
         let b i = v.[i] = '1' in
         let r = { r_file = sv 0; r_stdin = b 1; r_out = sv 2; r_encrypt = b 3; r_regexp = sv 4; r_fieldnames = sv 5;
                   r_proj = sv 6; r_cluster = sv 7; r_pub = sv 8; r_priv = sv 9; r_start = dv 10; r_end = dv 11; r_env = b 12 } in
         let vd = match decide_raw r with CReject n -> "reject:" ^ string_of_int (int_of_nat n) | CAccept MAtlas -> "accept:atlas" | CAccept MFile -> "accept:file" | CAccept MStdin -> "accept:stdin" in
         let e = String.concat "," (List.map (function ECreateOutput -> "out" | EKeyFile -> "key" | ENetwork -> "net" | EReadInput -> "read") (effects_raw r)) in
         out_s (vd ^ " " ^ (if e = "" then "-" else e))
       | ["JOB"; file; outp; enc; keyf; bits; proj; cluster; pub; priv; sd; ed; fsl; stdin_d; rnd; gz] ->
         (* the whole redact command on a small world; the redaction configuration and Encrypt are those of the last CFG request *)
         let rec z_of_int (n : int) : z = if n = 0 then Z0 else if n > 0 then Zpos (pos_of_int n) else Zneg (pos_of_int (- n)) in
         let path h = if h = "=" then "" else hex_decode h in
         let tbl = Hashtbl.create 16 in
         let order = ref [] in
         List.iter (fun item -> match String.split_on_char ':' item with
           | [pth; "A"] -> Hashtbl.replace tbl (path pth) (FAbsent true); order := path pth :: !order
           | [pth; "P"] -> Hashtbl.replace tbl (path pth) (FAbsent false); order := path pth :: !order
           | [pth; "D"] -> Hashtbl.replace tbl (path pth) FDir; order := path pth :: !order
           | [pth; "F"; mode; content] -> Hashtbl.replace tbl (path pth) (FFile (chars_of (hex_decode content), n_of_int (int_of_string mode))); order := path pth :: !order
           | [pth; "U"; mode; content] -> Hashtbl.replace tbl (path pth) (FUnreadable (chars_of (hex_decode content), n_of_int (int_of_string mode))); order := path pth :: !order
           | _ -> ()) (split_char ',' fsl);
         let fs0 pth = match Hashtbl.find_opt tbl pth with Some st -> st | None -> FAbsent true in
         let gtbl = Hashtbl.create 16 in
         List.iter (fun item -> match String.split_on_char ':' item with
           | [k; e; v] -> Hashtbl.replace gtbl (hex_decode k) (chars_of (hex_decode v), (if e = "E" then REof else RErr)) | _ -> ()) (split_char ',' gz);
         let gunzip b = match Hashtbl.find_opt gtbl (string_of_chars b) with Some r -> r | None -> remiss := true; ([], RErr) in
         let b i = bits.[i] = '1' in
         let a = { a_file = (if file = "!" then None else Some (path file)); a_out = hex_decode outp; a_encrypt = (enc = "1"); a_keyfile = hex_decode keyf;
                   a_cfg = !c; a_regexp_given = b 0; a_fieldnames_given = b 1; a_proj = hex_decode proj; a_cluster = hex_decode cluster;
                   a_pub = hex_decode pub; a_priv = hex_decode priv; a_start = z_of_int (int_of_string sd); a_end = z_of_int (int_of_string ed); a_env = b 2 } in
         let w = { w_fs = fs0; w_stdin = (if stdin_d = "!" then None else Some (chars_of (hex_decode stdin_d)));
                   w_rnd = List.map (fun ch -> n_of_int (Char.code ch)) (chars_of (hex_decode rnd));
                   w_encrypt = (fun _ -> match !e with Some f -> f | None -> (fun _ -> None));
                   w_gunzip = gunzip; w_writer = (fun _ -> Accept);
                   w_atlas = { w_challenge = false; w_cluster = HReset; w_hosts = None; w_logs = [] }; w_now = Z0 } in
         let r = job current current_consts a w in
         let show pth = (if pth = "" then "=" else hex_encode pth) ^ ":" ^ (match r.j_fs pth with
           | FAbsent true -> "A" | FAbsent false -> "P" | FDir -> "D"
           | FFile (ct, m) -> "F:" ^ string_of_int (int_of_n m) ^ ":" ^ hex_encode (string_of_chars ct)
           | FUnreadable (ct, m) -> "U:" ^ string_of_int (int_of_n m) ^ ":" ^ hex_encode (string_of_chars ct)) in
         let paths = List.sort_uniq compare (a.a_out :: a.a_keyfile :: !order) in
         out_s ((match r.j_status with Exit0 -> "0" | Exit1 -> "1") ^ " " ^ String.concat "," (List.map show paths) ^ " " ^ hex_encode (string_of_chars r.j_stdout)
                ^ " " ^ string_of_int (List.length r.j_trace))
      | _ -> out_s "BADREQ");
      if !remiss then out_s " TABLEMISS";
      out_nl ()
    done
  with End_of_file -> ())
