//go:build verif

// A fake Atlas endpoint for the UNMODIFIED CLI: an HTTP CONNECT proxy that terminates TLS for
// cloud.mongodb.com with a throw-away CA (the CLI is run with HTTPS_PROXY and SSL_CERT_FILE),
// serves a scripted "world" and records every request. Started when ANONYMONGO_VERIF_PROXY is set
// to a directory: writes ca.pem and port there, reads world.json, appends to requests.jsonl.
package main

import (
	"bufio"
	"crypto/ecdsa"
	"crypto/elliptic"
	"crypto/rand"
	"crypto/tls"
	"crypto/x509"
	"crypto/x509/pkix"
	"encoding/base64"
	"encoding/json"
	"encoding/pem"
	"fmt"
	"math/big"
	"net"
	"net/http"
	"os"
	"path/filepath"
	"strings"
	"sync"
	"time"
)

type pworld struct {
	Challenge   string   `json:"challenge"` // "digest", "basic", "none"
	ClusterSt   int      `json:"cluster_st"`
	ClusterBody string   `json:"cluster_body"`
	Hosts       []phost  `json:"hosts"`
	EchoHeaders bool     `json:"echo_headers"`   // error bodies echo the request headers
	AlwaysDeny  bool     `json:"always_deny"`    // 401 even with Authorization
	HostChal    string   `json:"host_challenge"` // log downloads are always answered 401 with this challenge: "basic", "digest-sha512", "bearer"
	AuthedChal  string   `json:"authed_challenge"` // AUTHENTICATED requests are answered 401 + this challenge (at most 3 times per path): "digest-stale", "digest-renonce", "digest-realm2", "digest-authint", "digest-noqop", "digest-md5sess", "digest-sha256"
	AuthedScope string   `json:"authed_scope"`     // "logs" (default) or "all"
	_           []string `json:"-"`
}

type phost struct {
	Status int    `json:"status"`
	Body   string `json:"body"` // base64
	Cut    int    `json:"cut"`  // -1 whole; else close after that many body bytes
	Reset  bool   `json:"reset"`
}

func init() {
	dir := os.Getenv("ANONYMONGO_VERIF_PROXY")
	if dir == "" {
		return
	}
	caKey, _ := ecdsa.GenerateKey(elliptic.P256(), rand.Reader)
	caTpl := &x509.Certificate{SerialNumber: big.NewInt(1), Subject: pkix.Name{CommonName: "verif CA"}, NotBefore: time.Now().Add(-time.Hour),
		NotAfter: time.Now().Add(24 * time.Hour), IsCA: true, KeyUsage: x509.KeyUsageCertSign, BasicConstraintsValid: true}
	caDER, _ := x509.CreateCertificate(rand.Reader, caTpl, caTpl, &caKey.PublicKey, caKey)
	caCert, _ := x509.ParseCertificate(caDER)
	leafKey, _ := ecdsa.GenerateKey(elliptic.P256(), rand.Reader)
	leafTpl := &x509.Certificate{SerialNumber: big.NewInt(2), Subject: pkix.Name{CommonName: "cloud.mongodb.com"}, DNSNames: []string{"cloud.mongodb.com"},
		NotBefore: time.Now().Add(-time.Hour), NotAfter: time.Now().Add(24 * time.Hour), KeyUsage: x509.KeyUsageDigitalSignature, ExtKeyUsage: []x509.ExtKeyUsage{x509.ExtKeyUsageServerAuth}}
	leafDER, _ := x509.CreateCertificate(rand.Reader, leafTpl, caCert, &leafKey.PublicKey, caKey)
	os.WriteFile(filepath.Join(dir, "ca.pem"), pem.EncodeToMemory(&pem.Block{Type: "CERTIFICATE", Bytes: caDER}), 0644)
	tlsCfg := &tls.Config{Certificates: []tls.Certificate{{Certificate: [][]byte{leafDER}, PrivateKey: leafKey}}}

	var w pworld
	wb, _ := os.ReadFile(filepath.Join(dir, "world.json"))
	json.Unmarshal(wb, &w)
	var mu sync.Mutex
	hostIdx := 0
	hostOf := map[string]int{}
	authedCount := map[string]int{}
	logf, _ := os.OpenFile(filepath.Join(dir, "requests.jsonl"), os.O_CREATE|os.O_WRONLY|os.O_APPEND, 0644)

	handler := http.HandlerFunc(func(rw http.ResponseWriter, r *http.Request) {
		mu.Lock()
		defer mu.Unlock()
		hdr := map[string]string{}
		for k, v := range r.Header {
			hdr[k] = strings.Join(v, ",")
		}
		rec, _ := json.Marshal(map[string]any{"method": r.Method, "host": r.Host, "path": r.URL.Path, "query": r.URL.RawQuery, "headers": hdr})
		logf.Write(append(rec, '\n'))
		auth := r.Header.Get("Authorization")
		deny := func() {
			switch w.Challenge {
			case "digest":
				rw.Header().Set("WWW-Authenticate", `Digest realm="MMS Public API", domain="", nonce="n0nc3abc", algorithm=MD5, qop="auth", stale=false`)
			case "basic":
				rw.Header().Set("WWW-Authenticate", `Basic realm="MMS Public API"`)
			}
			rw.WriteHeader(401)
			if w.EchoHeaders {
				fmt.Fprintf(rw, "denied; your headers: %v", r.Header)
			}
		}
		if w.AuthedChal != "" && auth != "" && (w.AuthedScope == "all" || strings.Contains(r.URL.Path, "/logs/")) && authedCount[r.URL.Path] < 3 {
			authedCount[r.URL.Path]++
			n := fmt.Sprintf("n0nc3re%d", authedCount[r.URL.Path])
			switch w.AuthedChal {
			case "digest-stale":
				rw.Header().Set("WWW-Authenticate", `Digest realm="MMS Public API", domain="", nonce="`+n+`", algorithm=MD5, qop="auth", stale=true`)
			case "digest-renonce":
				rw.Header().Set("WWW-Authenticate", `Digest realm="MMS Public API", domain="", nonce="`+n+`", algorithm=MD5, qop="auth", stale=false`)
			case "digest-realm2":
				rw.Header().Set("WWW-Authenticate", `Digest realm="Another Realm", nonce="`+n+`", algorithm=MD5, qop="auth"`)
			case "digest-authint":
				rw.Header().Set("WWW-Authenticate", `Digest realm="MMS Public API", nonce="`+n+`", algorithm=MD5, qop="auth-int", stale=true`)
			case "digest-noqop":
				rw.Header().Set("WWW-Authenticate", `Digest realm="MMS Public API", nonce="`+n+`", stale=true`)
			case "digest-md5sess":
				rw.Header().Set("WWW-Authenticate", `Digest realm="MMS Public API", nonce="`+n+`", algorithm=MD5-sess, qop="auth", stale=TRUE`)
			default:
				rw.Header().Set("WWW-Authenticate", `Digest realm="MMS Public API", nonce="`+n+`", algorithm=SHA-256, qop="auth", stale=true`)
			}
			rw.WriteHeader(401)
			if w.EchoHeaders {
				fmt.Fprintf(rw, "denied; your headers: %v", r.Header)
			}
			return
		}
		if w.HostChal != "" && strings.Contains(r.URL.Path, "/logs/") {
			switch w.HostChal {
			case "basic":
				rw.Header().Set("WWW-Authenticate", `Basic realm="MMS Public API"`)
			case "digest-sha512":
				rw.Header().Set("WWW-Authenticate", `Digest realm="MMS Public API", nonce="n0nc3xyz", algorithm=SHA-512-256, qop="auth"`)
			default:
				rw.Header().Set("WWW-Authenticate", `Bearer realm="x"`)
			}
			rw.WriteHeader(401)
			if w.EchoHeaders {
				fmt.Fprintf(rw, "denied; your headers: %v", r.Header)
			}
			return
		}
		if w.AlwaysDeny || (w.Challenge != "none" && auth == "") {
			deny()
			return
		}
		if !strings.Contains(r.URL.Path, "/logs/") {
			st := w.ClusterSt
			if st == 0 {
				st = 200
			}
			rw.WriteHeader(st)
			if st != 200 && w.EchoHeaders {
				fmt.Fprintf(rw, "error; your headers: %v", r.Header)
				return
			}
			rw.Write([]byte(w.ClusterBody))
			return
		}
		// the i-th distinct log path gets the i-th scripted answer (a transparent retry of net/http gets the same one)
		hi, seen := hostOf[r.URL.Path]
		if !seen {
			hi = hostIdx
			hostOf[r.URL.Path] = hi
			hostIdx++
		}
		if hi >= len(w.Hosts) {
			rw.WriteHeader(500)
			return
		}
		h := w.Hosts[hi]
		body, _ := base64.StdEncoding.DecodeString(h.Body)
		if h.Reset {
			if hj, ok := rw.(http.Hijacker); ok {
				c, _, _ := hj.Hijack()
				c.Close()
			}
			return
		}
		if h.Status != 0 && h.Status != 200 {
			rw.WriteHeader(h.Status)
			if w.EchoHeaders {
				fmt.Fprintf(rw, "error; your headers: %v", r.Header)
			} else {
				rw.Write(body)
			}
			return
		}
		if h.Cut >= 0 && h.Cut < len(body) {
			rw.Header().Set("Content-Length", fmt.Sprint(len(body)))
			rw.WriteHeader(200)
			rw.Write(body[:h.Cut])
			if f, ok := rw.(http.Flusher); ok {
				f.Flush()
			}
			if hj, ok := rw.(http.Hijacker); ok {
				c, _, _ := hj.Hijack()
				c.Close()
			}
			return
		}
		rw.WriteHeader(200)
		rw.Write(body)
	})

	ln, err := net.Listen("tcp", "127.0.0.1:0")
	if err != nil {
		os.Exit(3)
	}
	os.WriteFile(filepath.Join(dir, "port"), []byte(fmt.Sprint(ln.Addr().(*net.TCPAddr).Port)), 0644)
	// one-connection listener feeding the TLS server
	inner := &chanListener{ch: make(chan net.Conn, 16), addr: ln.Addr()}
	srv := &http.Server{Handler: handler}
	go srv.Serve(tls.NewListener(inner, tlsCfg))
	for {
		c, err := ln.Accept()
		if err != nil {
			break
		}
		go func(c net.Conn) {
			br := bufio.NewReader(c)
			req, err := http.ReadRequest(br)
			if err != nil || req.Method != "CONNECT" {
				c.Close()
				return
			}
			rec, _ := json.Marshal(map[string]any{"method": "CONNECT", "host": req.Host})
			mu.Lock()
			logf.Write(append(rec, '\n'))
			mu.Unlock()
			c.Write([]byte("HTTP/1.1 200 Connection established\r\n\r\n"))
			inner.ch <- c
		}(c)
	}
	os.Exit(0)
}

type chanListener struct {
	ch   chan net.Conn
	addr net.Addr
}

func (l *chanListener) Accept() (net.Conn, error) { c := <-l.ch; return c, nil }
func (l *chanListener) Close() error              { return nil }
func (l *chanListener) Addr() net.Addr            { return l.addr }
