//go:build verif

// Verification harness for /verif. Compiled INTO package main of /repo's working tree
// through `go build -tags verif -overlay ...`; /repo itself is not modified.
// When ANONYMONGO_VERIF_HARNESS is set, init() serves line-oriented JSON requests on
// stdin (one request per line, one response per line) and exits before cobra runs.
package main

import (
	"bufio"
	"bytes"
	"compress/gzip"
	"context"
	"crypto/sha256"
	"encoding/base64"
	"encoding/hex"
	"encoding/json"
	"errors"
	"fmt"
	"io"
	"net/http"
	"net/http/httptest"
	"os"
	"os/exec"
	"regexp"
	"sort"
	"strconv"
	"strings"
	"time"

	"github.com/elliotchance/orderedmap/v3"
	"github.com/schollz/progressbar/v3"
)

type vreq struct {
	Op      string   `json:"op"`
	S       string   `json:"s"`   // base64 payload
	Key     string   `json:"key"` // base64 key
	Repl    string   `json:"repl"`
	Nums    bool     `json:"nums"`
	Bools   bool     `json:"bools"`
	IPs     bool     `json:"ips"`
	Nss     bool     `json:"nss"`
	Eager   []string `json:"eager"` // base64 each
	Re      string   `json:"re"`
	Encrypt bool     `json:"encrypt"`
	Names   []string `json:"names"` // base64 each
	Path    string   `json:"path"`
	RFail   int      `json:"rfail"`  // reader fails after this many bytes (-1: never)
	Chunk   int      `json:"chunk"`  // reader chunk size (0: all)
	WFail   int      `json:"wfail"`  // index of the write that fails (-1: never)
	WShort  int      `json:"wshort"` // bytes the failing write accepts
	Bar     int      `json:"bar"`    // progress bar max (-1: no bar)
	A       int      `json:"a"`
	B       int      `json:"b"`
	World   *vworld  `json:"world"`
}

type vworld struct {
	Cluster   string   `json:"cluster"`    // body of the cluster-info response
	ClusterSt int      `json:"cluster_st"` // status of the cluster-info response
	Hosts     []vhost  `json:"hosts"`      // per host (by request order) behaviour
	Project   string   `json:"project"`
	Name      string   `json:"name"`
	Pub       string   `json:"pub"`
	Priv      string   `json:"priv"`
	Start     int      `json:"start"`
	End       int      `json:"end"`
	Tmp       string   `json:"tmp"`
	Challenge bool     `json:"challenge"`
	_         []string `json:"-"`
}

type vhost struct {
	Status int    `json:"status"`
	Body   string `json:"body"`   // base64
	Cut    int    `json:"cut"`    // -1: whole body; else close the connection after that many body bytes
	Cancel bool   `json:"cancel"` // send half of the body, then cancel the CALLER's context (time-out / interrupt while this host is in flight)
}

func vb64(s string) []byte {
	b, err := base64.StdEncoding.DecodeString(s)
	if err != nil {
		panic("harness: bad base64 in request")
	}
	return b
}

func venc(b []byte) string { return base64.StdEncoding.EncodeToString(b) }

type vfailReader struct {
	data  []byte
	pos   int
	fail  int
	chunk int
}

var errInjectedRead = errors.New("injected read fault")
var errInjectedWrite = errors.New("injected write fault")

func (r *vfailReader) Read(p []byte) (int, error) {
	limit := len(r.data)
	if r.fail >= 0 && r.fail < limit {
		limit = r.fail
	}
	if r.pos >= limit {
		if r.fail >= 0 && r.pos >= r.fail {
			return 0, errInjectedRead
		}
		return 0, io.EOF
	}
	n := limit - r.pos
	if n > len(p) {
		n = len(p)
	}
	if r.chunk > 0 && n > r.chunk {
		n = r.chunk
	}
	copy(p, r.data[r.pos:r.pos+n])
	r.pos += n
	return n, nil
}

type vfailWriter struct {
	buf    bytes.Buffer
	count  int
	fail   int
	short  int
	writes []int
}

func (w *vfailWriter) Write(p []byte) (int, error) {
	idx := w.count
	w.count++
	if w.fail >= 0 && idx == w.fail {
		n := w.short
		if n > len(p) {
			n = len(p)
		}
		if n < 0 {
			n = 0
		}
		w.buf.Write(p[:n])
		w.writes = append(w.writes, n)
		return n, errInjectedWrite
	}
	w.buf.Write(p)
	w.writes = append(w.writes, len(p))
	return len(p), nil
}

// vprobeLineLimit measures the stream processor's line limit as the compiled program has it: the smallest length L such that
// a line of L bytes followed by a newline makes ProcessMongoLogFileFromReader stop with an error (0: none up to 32 MiB).
// vprobePlaceholders measures the two placeholders that are not package constants (they are written inside functions): what the program puts in
// the place of an e-mail-shaped literal, and of the client address under --redactIPs. Found by redacting a probe line, whatever the code looks like.
func vprobePlaceholders() (email string, ip string) {
	defer func() { _ = recover() }()
	probe := func(line string, path ...string) string {
		redacted, err := RedactMongoLog(line)
		if err != nil {
			return ""
		}
		out, err := MarshalOrdered(redacted)
		if err != nil {
			return ""
		}
		var cur any
		if json.Unmarshal(out, &cur) != nil {
			return ""
		}
		for _, k := range path {
			m, ok := cur.(map[string]any)
			if !ok {
				return ""
			}
			cur = m[k]
		}
		s, _ := cur.(string)
		return s
	}
	email = probe(`{"c":"COMMAND","attr":{"command":{"find":"c","filter":{"e":"probe.user@example.org"}}}}`, "attr", "command", "filter", "e")
	SetRedactIPs(true)
	ip = probe(`{"c":"COMMAND","attr":{"remote":"203.0.113.77:41234","command":{"find":"c","filter":{}}}}`, "attr", "remote")
	SetRedactIPs(false)
	return
}

// vprobeNsFields finds, among candidate member names, those whose string value directly inside a command document is replaced under
// --redactNamespaces (the list is written inside redactNamespace, not in a table): one probe line per candidate through RedactMongoLog.
func vprobeNsFields(cands []string) []string {
	out := []string{}
	SetRedactNamespaces(true)
	defer SetRedactNamespaces(false)
	for _, k := range cands {
		func() {
			defer func() { _ = recover() }()
			kb, err := json.Marshal(k)
			if err != nil {
				return
			}
			red, err := RedactMongoLog(`{"c":"COMMAND","attr":{"command":{` + string(kb) + `:"zzprobens"}}}`)
			if err != nil {
				return
			}
			b, err := MarshalOrdered(red)
			if err != nil {
				return
			}
			if !bytes.Contains(b, []byte(`"zzprobens"`)) {
				out = append(out, k)
			}
		}()
	}
	return out
}

// vprobeGzipSuffixes finds, among candidate file-name endings, those for which ProcessMongoLogFile decompresses the file: a gzip payload is
// written under each name and the output compared with the output for the plain text.
func vprobeGzipSuffixes() []string {
	out := []string{}
	dir, err := os.MkdirTemp("", "vprobe")
	if err != nil {
		return out
	}
	defer os.RemoveAll(dir)
	plain := []byte(`{"c":"NETWORK","attr":{"x":1}}` + "\n")
	var gzbuf bytes.Buffer
	zw := gzip.NewWriter(&gzbuf)
	_, _ = zw.Write(plain)
	_ = zw.Close()
	var want bytes.Buffer
	if ProcessMongoLogFileFromReader(bytes.NewReader(plain), &want, nil) != nil {
		return out
	}
	for _, suf := range []string{".gz", ".gzip", ".z", ".tgz", ".zip", ".bz2", ".zst", ".xz", ".log", ".json", ".gz.txt", ".gz.", "gz", ".GZ", ".Gz", ".GZIP"} {
		name := dir + "/probe" + suf
		if os.WriteFile(name, gzbuf.Bytes(), 0o600) != nil {
			continue
		}
		var got bytes.Buffer
		func() {
			defer func() { _ = recover() }()
			if ProcessMongoLogFile(&DefaultFileReader{}, name, &got, nil) == nil && bytes.Equal(got.Bytes(), want.Bytes()) && want.Len() > 0 {
				out = append(out, suf)
			}
		}()
	}
	return out
}

func vprobeLineLimit() int {
	fails := func(n int) bool {
		cmd := exec.Command(os.Args[0])
		cmd.Env = append(os.Environ(), "ANONYMONGO_VERIF_PROBE_LINE="+strconv.Itoa(n))
		out, err := cmd.Output()
		if err != nil || len(out) == 0 {
			return true // the process died on this line: refused
		}
		return out[0] == '1'
	}
	const top = 32 << 20
	if fails(16) {
		return 0 // not even a short line passes: nothing can be measured (the model keeps its default and the correspondence will say what is wrong)
	}
	hi := 1024
	for hi <= top && !fails(hi) {
		hi *= 2
	}
	if hi > top {
		return 0
	}
	lo := hi / 2 // does not fail (or is below the first probe)
	if hi == 1024 {
		lo = 16
	}
	for hi-lo > 1 {
		mid := (lo + hi) / 2
		if fails(mid) {
			hi = mid
		} else {
			lo = mid
		}
	}
	return hi
}

func vdumpMeta(v any) any {
	switch t := v.(type) {
	case nil:
		return nil
	case OperatorType:
		return int(t)
	case *orderedmap.OrderedMap[string, any]:
		out := [][]any{}
		for el := t.Front(); el != nil; el = el.Next() {
			out = append(out, []any{el.Key, vdumpMeta(el.Value)})
		}
		return map[string]any{"m": out}
	default:
		return map[string]any{"unknown": fmt.Sprintf("%T", v)}
	}
}

func vrespond(w *bufio.Writer, v any) {
	b, err := json.Marshal(v)
	if err != nil {
		b = []byte(`{"harness_error":"marshal"}`)
	}
	w.Write(b)
	w.WriteByte('\n')
}

func vline(s string) (res map[string]any) {
	defer func() {
		if r := recover(); r != nil {
			res = map[string]any{"r": "panic", "m": fmt.Sprint(r)}
		}
	}()
	redacted, err := RedactMongoLog(s)
	if err != nil {
		return map[string]any{"r": "skip", "m": "parse"}
	}
	out, err := MarshalOrdered(redacted)
	if err != nil {
		return map[string]any{"r": "skip", "m": "marshal"}
	}
	return map[string]any{"r": "out", "o": venc(out)}
}

func vstream(rq *vreq) (res map[string]any) {
	defer func() {
		if r := recover(); r != nil {
			res = map[string]any{"r": "panic", "m": fmt.Sprint(r)}
		}
	}()
	rd := &vfailReader{data: vb64(rq.S), fail: rq.RFail, chunk: rq.Chunk}
	wr := &vfailWriter{fail: rq.WFail, short: rq.WShort}
	var bar *progressbar.ProgressBar
	if rq.Bar >= 0 {
		bar = progressbar.NewOptions64(int64(rq.Bar), progressbar.OptionSetWriter(io.Discard))
	}
	err := ProcessMongoLogFileFromReader(rd, wr, bar)
	e := ""
	if err != nil {
		e = err.Error()
	}
	return map[string]any{"r": "done", "err": e, "toolong": err != nil && errors.Is(err, bufio.ErrTooLong), "out": venc(wr.buf.Bytes()), "writes": wr.writes}
}

func vatlas(rq *vreq) (res map[string]any) {
	defer func() {
		if r := recover(); r != nil {
			res = map[string]any{"r": "panic", "m": fmt.Sprint(r)}
		}
	}()
	w := rq.World
	type reqlog struct {
		Method string `json:"method"`
		Path   string `json:"path"`
		Query  string `json:"query"`
		Auth   bool   `json:"auth"`
		Accept string `json:"accept"`
	}
	var log []reqlog
	hostIdx := 0
	ctx, cancelCtx := context.WithCancel(context.Background())
	defer cancelCtx()
	srv := httptest.NewServer(http.HandlerFunc(func(rw http.ResponseWriter, r *http.Request) {
		auth := r.Header.Get("Authorization")
		log = append(log, reqlog{r.Method, r.URL.Path, r.URL.RawQuery, auth != "", r.Header.Get("Accept")})
		if w.Challenge && auth == "" {
			rw.Header().Set("WWW-Authenticate", `Digest realm="MMS Public API", domain="", nonce="abc123", algorithm=MD5, qop="auth", stale=false`)
			rw.WriteHeader(401)
			return
		}
		if !strings.Contains(r.URL.Path, "/logs/") {
			st := w.ClusterSt
			if st == 0 {
				st = 200
			}
			rw.WriteHeader(st)
			rw.Write([]byte(w.Cluster))
			return
		}
		if hostIdx >= len(w.Hosts) {
			rw.WriteHeader(500)
			return
		}
		h := w.Hosts[hostIdx]
		hostIdx++
		body := vb64(h.Body)
		if h.Status != 200 && h.Status != 0 {
			rw.WriteHeader(h.Status)
			rw.Write(body)
			return
		}
		if h.Cancel {
			rw.Header().Set("Content-Length", fmt.Sprint(len(body)))
			rw.WriteHeader(200)
			rw.Write(body[:len(body)/2])
			if f, ok := rw.(http.Flusher); ok {
				f.Flush()
			}
			cancelCtx()
			time.Sleep(150 * time.Millisecond)
			return
		}
		if h.Cut >= 0 && h.Cut < len(body) {
			rw.Header().Set("Content-Length", fmt.Sprint(len(body)))
			rw.WriteHeader(200)
			rw.Write(body[:h.Cut])
			if f, ok := rw.(http.Flusher); ok {
				f.Flush()
			}
			hj, ok := rw.(http.Hijacker)
			if ok {
				conn, _, _ := hj.Hijack()
				conn.Close()
			}
			return
		}
		rw.WriteHeader(200)
		rw.Write(body)
	}))
	defer srv.Close()
	os.Setenv("TMPDIR", w.Tmp)
	client := NewAtlasClient(nil)
	client.BaseURL = srv.URL
	files, err := client.DownloadClusterLogs(ctx, w.Pub, w.Priv, w.Project, w.Name, w.Start, w.End)
	e := ""
	if err != nil {
		e = err.Error()
	}
	contents := []string{}
	for _, f := range files {
		b, _ := os.ReadFile(f)
		contents = append(contents, venc(b))
	}
	left := []string{}
	ents, _ := os.ReadDir(w.Tmp)
	for _, en := range ents {
		left = append(left, en.Name())
	}
	derr := ""
	if err == nil {
		if de := client.DeleteClusterLogs(context.Background(), files); de != nil {
			derr = de.Error()
		}
	}
	after := []string{}
	ents, _ = os.ReadDir(w.Tmp)
	for _, en := range ents {
		after = append(after, en.Name())
	}
	return map[string]any{"r": "done", "err": e, "nfiles": len(files), "contents": contents, "tmp_after_download": left, "tmp_after_delete": after, "delerr": derr, "log": log}
}

func init() {
	if os.Getenv("ANONYMONGO_VERIF_HARNESS") == "" {
		return
	}
	// child mode of the probes: ONE probe in a process of its own, so that whatever the code under test does with it (an error, a panic, os.Exit, state kept
	// between lines) stays inside the probe. Prints 1 when a line of n bytes is refused, 0 when it is processed; dying counts as refused.
	if p := os.Getenv("ANONYMONGO_VERIF_PROBE_LINE"); p != "" {
		n, _ := strconv.Atoi(p)
		data := append(bytes.Repeat([]byte{'x'}, n), '\n')
		devnull, _ := os.OpenFile(os.DevNull, os.O_WRONLY, 0)
		real := os.Stdout
		os.Stdout = devnull
		failed := ProcessMongoLogFileFromReader(bytes.NewReader(data), io.Discard, nil) != nil
		if failed {
			fmt.Fprint(real, "1")
		} else {
			fmt.Fprint(real, "0")
		}
		os.Exit(0)
	}
	in := bufio.NewReaderSize(os.Stdin, 1<<20)
	realStdout := os.Stdout
	out := bufio.NewWriterSize(realStdout, 1<<20)
	// the code under test prints progress to os.Stdout; keep the protocol channel clean
	devnull, _ := os.OpenFile(os.DevNull, os.O_WRONLY, 0)
	os.Stdout = devnull
	for {
		lineBytes, err := in.ReadBytes('\n')
		if len(lineBytes) > 0 {
			var rq vreq
			rq.RFail, rq.WFail, rq.Bar = -1, -1, -1
			if jerr := json.Unmarshal(lineBytes, &rq); jerr != nil {
				vrespond(out, map[string]any{"harness_error": jerr.Error()})
			} else {
				vserve(&rq, out)
			}
		}
		if err != nil {
			break
		}
	}
	out.Flush()
	os.Exit(0)
}

func vserve(rq *vreq, out *bufio.Writer) {
	defer func() {
		if r := recover(); r != nil {
			vrespond(out, map[string]any{"r": "panic", "m": fmt.Sprint(r)})
		}
	}()
	switch rq.Op {
	case "cfg":
		SetRedactedString(string(vb64(rq.Repl)))
		SetRedactNumbers(rq.Nums)
		SetRedactBooleans(rq.Bools)
		SetRedactIPs(rq.IPs)
		SetRedactNamespaces(rq.Nss)
		eager := []string{}
		for _, e := range rq.Eager {
			eager = append(eager, string(vb64(e)))
		}
		SetEagerRedactionPaths(eager)
		SetRedactedFieldsRegexp(rq.Re)
		SetShouldEncrypt(rq.Encrypt)
		if rq.Key != "" {
			SetEncryptionKey(vb64(rq.Key))
		} else {
			SetEncryptionKey(nil)
		}
		vrespond(out, map[string]any{"r": "ok"})
	case "line":
		vrespond(out, vline(string(vb64(rq.S))))
	case "stream":
		vrespond(out, vstream(rq))
	case "hash":
		vrespond(out, map[string]any{"o": venc([]byte(HashName(string(vb64(rq.S)))))})
	case "email":
		vrespond(out, map[string]any{"b": IsEmail(string(vb64(rq.S)))})
	case "plan":
		fs := ParsePlanSummary(string(vb64(rq.S)))
		o := []string{}
		for _, f := range fs {
			o = append(o, venc([]byte(f)))
		}
		vrespond(out, map[string]any{"fields": o, "redacted": venc([]byte(redactFieldNamesFromPlanSummary(string(vb64(rq.S)))))})
	case "sha256":
		h := sha256.Sum256(vb64(rq.S))
		vrespond(out, map[string]any{"h": hex.EncodeToString(h[:])})
	case "b64":
		d, err := base64.StdEncoding.DecodeString(string(vb64(rq.S)))
		vrespond(out, map[string]any{"enc": base64.StdEncoding.EncodeToString(vb64(rq.S)), "dec": venc(d), "decok": err == nil})
	case "enc":
		ct, err := Encrypt(vb64(rq.S), vb64(rq.Key))
		if err != nil {
			vrespond(out, map[string]any{"err": err.Error()})
		} else {
			vrespond(out, map[string]any{"ct": venc(ct)})
		}
	case "dec":
		pt, err := Decrypt(vb64(rq.S), vb64(rq.Key))
		if err != nil {
			vrespond(out, map[string]any{"err": err.Error()})
		} else {
			vrespond(out, map[string]any{"pt": venc(pt)})
		}
	case "rematch":
		re, err := regexp.Compile(rq.Re)
		if err != nil {
			vrespond(out, map[string]any{"err": err.Error()})
			return
		}
		bs := []bool{}
		for _, n := range rq.Names {
			bs = append(bs, re.MatchString(string(vb64(n))))
		}
		vrespond(out, map[string]any{"m": bs})
	case "readkey":
		k, err := ReadKeyFromFile(rq.Path)
		if err != nil {
			vrespond(out, map[string]any{"err": err.Error()})
		} else {
			vrespond(out, map[string]any{"key": venc(k)})
		}
	case "writekey":
		err := WriteKeyToFile(rq.Path, vb64(rq.Key))
		if err != nil {
			vrespond(out, map[string]any{"err": err.Error()})
		} else {
			vrespond(out, map[string]any{"ok": true})
		}
	case "fileexists":
		vrespond(out, map[string]any{"b": FileExists(rq.Path)})
	case "hosts":
		hs, err := GetHostsFromConnectionString(string(vb64(rq.S)))
		if err != nil {
			vrespond(out, map[string]any{"err": err.Error()})
		} else {
			vrespond(out, map[string]any{"hosts": hs})
		}
	case "dates":
		SetAtlasLogStartDate(rq.A)
		SetAtlasLogEndDate(rq.B)
		s, e := GetStartAndEndDates()
		vrespond(out, map[string]any{"s": s, "e": e})
	case "atlas":
		vrespond(out, vatlas(rq))
	case "dump":
		keys := []string{}
		probedEmail, probedIP := vprobePlaceholders()
		nsCands := []string{}
		for _, n := range rq.Names {
			nsCands = append(nsCands, string(vb64(n)))
		}
		tables := map[string]any{
			"Agg":       vdumpMeta(AggregationOperators),
			"Core":      vdumpMeta(CoreOperators),
			"MapDefs":   vdumpMeta(OperatorMapDefs),
			"Search":    vdumpMeta(SearchOperators),
			"SearchAgg": vdumpMeta(SearchAggregationOperators),
		}
		for k := range tables {
			keys = append(keys, k)
		}
		sort.Strings(keys)
		vrespond(out, map[string]any{
			"tables":    tables,
			"TopSearch": TopLevelSearchOperators,
			"otypes":    map[string]int{"Pipeline": int(Pipeline), "Exempt": int(Exempt), "Redactable": int(Redactable), "FieldName": int(FieldName), "OperatorArray": int(OperatorArray), "OperatorMap": int(OperatorMap), "Namespace": int(Namespace)},
			"max_token": vprobeLineLimit(),
			"gz_suffixes": vprobeGzipSuffixes(),
			"probed":    map[string]any{"email_placeholder": probedEmail, "ip_placeholder": probedIP, "ns_fields": vprobeNsFields(nsCands)},
			"consts": map[string]any{
				"RedactedISODate": RedactedISODate, "RedactedString": RedactedString, "RedactedNumber": RedactedNumber,
				"RedactedBoolean": RedactedBoolean, "RedactedObjectId": RedactedObjectId, "RedactedUUID": RedactedUUID,
			},
		})
	default:
		vrespond(out, map[string]any{"harness_error": "unknown op " + rq.Op})
	}
}
